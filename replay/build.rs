//! Turns the Kani harness sources (/verif/kani/src/h_*.rs, refmodel.rs) into plain Rust
//! for the native replay binary: drops `#[kani::…]` attribute lines and inner doc
//! comments, makes every harness function public, and generates a name → fn dispatcher.
use std::{env, fs, path::Path};

fn main() {
  let src = Path::new(env!("CARGO_MANIFEST_DIR")).join("../kani/src");
  let out = env::var("OUT_DIR").unwrap();
  println!("cargo:rerun-if-changed={}", src.display());
  let mut mods = Vec::new();
  let mut dispatch = String::from("pub fn run_harness(name: &str) -> bool {\n  match name {\n");
  let mut names = Vec::new();
  let mut entries: Vec<_> = fs::read_dir(&src).unwrap().map(|e| e.unwrap().path()).collect();
  entries.sort();
  for p in entries {
    let fname = p.file_name().unwrap().to_str().unwrap().to_string();
    if !(fname.starts_with("h_") || fname == "refmodel.rs") || !fname.ends_with(".rs") {
      continue;
    }
    println!("cargo:rerun-if-changed={}", p.display());
    let modname = fname.trim_end_matches(".rs").to_string();
    let text = fs::read_to_string(&p).unwrap();
    let mut o = String::new();
    let mut macro_harnesses: Vec<String> = Vec::new();
    for line in text.lines() {
      let t = line.trim_start();
      if t.starts_with("#[kani::") || t.starts_with("#![") {
        continue;
      }
      if t.starts_with("//!") {
        continue;
      }
      let mut l = line.to_string();
      if t.starts_with("fn c") && t.contains("()") && !t.contains("->") {
        // fn cNN_name() {
        let name = t[3..].split('(').next().unwrap().to_string();
        if name.len() > 4 && name.as_bytes()[1].is_ascii_digit() {
          l = line.replacen("fn ", "pub fn ", 1);
          names.push((modname.clone(), name));
        }
      }
      if t.starts_with("fn $name()") {
        l = line.replacen("fn ", "pub fn ", 1);
      }
      if t.starts_with("def_") && t.contains("_harness!(") {
        let inner = t.split('(').nth(1).unwrap();
        let name = inner.split(',').next().unwrap().trim().to_string();
        macro_harnesses.push(name);
      }
      o.push_str(&l);
      o.push('\n');
    }
    for n in macro_harnesses {
      names.push((modname.clone(), n));
    }
    fs::write(Path::new(&out).join(&fname), o).unwrap();
    mods.push(modname);
  }
  let mut modsrc = String::new();
  for m in &mods {
    modsrc.push_str(&format!(
      "#[allow(dead_code, unused_imports, unused_variables, unused_mut, clippy::all)]\npub mod {m} {{ include!(concat!(env!(\"OUT_DIR\"), \"/{m}.rs\")); }}\n"
    ));
  }
  for (m, n) in &names {
    dispatch.push_str(&format!("    \"{n}\" => {{ {m}::{n}(); true }}\n"));
  }
  dispatch.push_str("    _ => false,\n  }\n}\n");
  dispatch.push_str("pub const HARNESSES: &[&str] = &[");
  for (_, n) in &names {
    dispatch.push_str(&format!("\"{n}\", "));
  }
  dispatch.push_str("];\n");
  fs::write(Path::new(&out).join("harness_mods.rs"), modsrc + &dispatch).unwrap();
}
