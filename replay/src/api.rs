//! Public-API confirmations: the same oracle, but driven through the crate's public entry
//! points instead of the hooks.
use crate::refmodel::*;

fn bytes_arg(path: &str) -> Vec<u8> {
  let text = std::fs::read_to_string(path).expect("read args");
  let v: serde_json::Value = serde_json::from_str(&text).expect("json");
  let a = v.get("bytes").cloned().unwrap_or(v);
  a.as_array().expect("bytes array").iter().map(|b| b.as_u64().unwrap() as u8).collect()
}

fn value_matches(v: &cddl::validator::cbor_value::Value, r: &RefValue) -> bool {
  use cddl::validator::cbor_value::Value as V;
  match (v, r) {
    (V::Integer(i), RefValue::Int(n)) => i128::from(*i) == *n,
    (V::Bytes(b), RefValue::Bytes(w)) => b == w,
    (V::Text(s), RefValue::Text(w)) => s.as_bytes() == &w[..],
    (V::Float(f), RefValue::Float(bits)) => same_float_bits(f.to_bits(), *bits),
    (V::Bool(b), RefValue::Simple(s)) => (*s == 20 && !*b) || (*s == 21 && *b),
    (V::Null, RefValue::Simple(s)) => *s == 22 || *s == 23,
    (V::Simple(x), RefValue::Simple(s)) => x == s && !(20..=23).contains(s),
    (V::Tag(t, inner), RefValue::Tag(u, w)) => t == u && value_matches(inner, w),
    (V::Array(a), RefValue::Array(w)) => {
      a.len() == w.len() && a.iter().zip(w.iter()).all(|(x, y)| value_matches(x, y))
    }
    (V::Map(a), RefValue::Map(w)) => {
      a.len() == w.len()
        && a.iter().zip(w.iter()).all(|((k, v), (rk, rv))| value_matches(k, rk) && value_matches(v, rv))
    }
    _ => false,
  }
}

/// exit 0: public API agrees with the reference; 1: disagrees (prints how).
pub fn run(kind: &str, path: &str) -> i32 {
  match kind {
    // decode_cbor(bytes) versus the RFC 8949 reference decoder
    "decode_cbor" | "decode_cbor_strict" => {
      let b = bytes_arg(path);
      let opts = RefOpts { two_byte_simple_below_32_ok: kind == "decode_cbor" };
      let want = ref_decode(&b, opts, 64);
      let got = std::panic::catch_unwind(|| cddl::validator::cbor_value::decode_cbor(&b));
      match (got, want) {
        (Err(_), _) => {
          println!("api: decode_cbor PANICKED on {:02x?}", b);
          1
        }
        (Ok(Ok(v)), Some((w, _))) => {
          if value_matches(&v, &w) {
            println!("api: agree (value)");
            0
          } else {
            println!("api: DISAGREE value: crate {:?} reference {:?}", v, w);
            1
          }
        }
        (Ok(Err(_)), None) => {
          println!("api: agree (error)");
          0
        }
        (Ok(Ok(v)), None) => {
          println!("api: DISAGREE: crate decodes {:?}, reference says not well-formed", v);
          1
        }
        (Ok(Err(e)), Some((w, _))) => {
          println!("api: DISAGREE: crate rejects ({e}), reference value {:?}", w);
          1
        }
      }
    }
    // texts (byte arrays) -> one JSON line each: pest-only acceptance, crate acceptance
    "parse" => {
      use pest::Parser;
      let text = std::fs::read_to_string(path).expect("read args");
      let v: serde_json::Value = serde_json::from_str(&text).expect("json");
      let mut out = Vec::new();
      for t in v.get("texts").and_then(|t| t.as_array()).expect("texts") {
        let b: Vec<u8> = t.as_array().unwrap().iter().map(|x| x.as_u64().unwrap() as u8).collect();
        match std::str::from_utf8(&b) {
          Ok(s) => {
            let pest_ok = cddl::pest_parser::CddlParser::parse(cddl::pest_parser::Rule::cddl, s).is_ok();
            let crate_res = std::panic::catch_unwind(|| cddl::cddl_from_str(s, false).is_ok());
            let panicked = crate_res.is_err();
            out.push(serde_json::json!({"utf8": true, "pest": pest_ok, "crate": crate_res.unwrap_or(false), "panic": panicked}));
          }
          Err(_) => out.push(serde_json::json!({"utf8": false})),
        }
      }
      println!("{}", serde_json::Value::Array(out));
      0
    }
    // {"text": escaped literal content} -> code points of unescape_text(text)
    "unescape" => {
      let text = std::fs::read_to_string(path).expect("read args");
      let v: serde_json::Value = serde_json::from_str(&text).expect("json");
      let t = v.get("text").and_then(|x| x.as_str()).expect("text");
      let out = cddl::pest_bridge::verif_hooks::unescape_text(t);
      let cps: Vec<u32> = out.chars().map(|c| c as u32).collect();
      println!("{}", serde_json::json!({"code_points": cps}));
      0
    }
    // {"cases": [{"cddl": text, "json": text} | {"cddl": text, "cbor": [bytes]}]} -> verdicts
    "validate" => {
      let text = std::fs::read_to_string(path).expect("read args");
      let v: serde_json::Value = serde_json::from_str(&text).expect("json");
      let mut out = Vec::new();
      for c in v.get("cases").and_then(|t| t.as_array()).expect("cases") {
        let cddl_text = c.get("cddl").and_then(|x| x.as_str()).unwrap().to_string();
        let res = if let Some(j) = c.get("json").and_then(|x| x.as_str()) {
          let j = j.to_string();
          std::panic::catch_unwind(move || cddl::validate_json_from_str(&cddl_text, &j, None).is_ok())
        } else {
          let b: Vec<u8> = c.get("cbor").and_then(|x| x.as_array()).unwrap().iter().map(|x| x.as_u64().unwrap() as u8).collect();
          std::panic::catch_unwind(move || cddl::validate_cbor_from_slice(&cddl_text, &b, None).is_ok())
        };
        match res {
          Ok(ok) => out.push(serde_json::json!({"accepted": ok, "panic": false})),
          Err(_) => out.push(serde_json::json!({"accepted": false, "panic": true})),
        }
      }
      println!("{}", serde_json::Value::Array(out));
      0
    }
    // {"rule": name, "texts": [...]} -> does the pest rule match the WHOLE text?
    "parse_rule" => {
      use cddl::pest_parser::Rule;
      use pest::Parser;
      let text = std::fs::read_to_string(path).expect("read args");
      let v: serde_json::Value = serde_json::from_str(&text).expect("json");
      let which = match v.get("rule").and_then(|r| r.as_str()).unwrap_or("") {
        "uint_value" => Rule::uint_value,
        "int_value" => Rule::int_value,
        "float_value" => Rule::float_value,
        "hexfloat" => Rule::hexfloat,
        "number" => Rule::number,
        "text_value" => Rule::text_value,
        "bytes_value" => Rule::bytes_value,
        "id" => Rule::id,
        "occur" => Rule::occur,
        other => {
          eprintln!("api: rule {other} not mapped");
          return 4;
        }
      };
      let mut out = Vec::new();
      for t in v.get("texts").and_then(|t| t.as_array()).expect("texts") {
        let b: Vec<u8> = t.as_array().unwrap().iter().map(|x| x.as_u64().unwrap() as u8).collect();
        match std::str::from_utf8(&b) {
          Ok(s) => {
            let whole = match cddl::pest_parser::CddlParser::parse(which, s) {
              Ok(mut pairs) => pairs.next().map(|p| p.as_span().end() == s.len()).unwrap_or(false),
              Err(_) => false,
            };
            out.push(serde_json::json!({"utf8": true, "pest": whole, "crate": whole}));
          }
          Err(_) => out.push(serde_json::json!({"utf8": false})),
        }
      }
      println!("{}", serde_json::Value::Array(out));
      0
    }
    _ => {
      eprintln!("api: unknown kind {kind}");
      4
    }
  }
}
