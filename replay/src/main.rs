//! Native replay of solver counterexamples and cover witnesses against the real build of
//! /repo (same hooks cfg as the Kani run; dev and release profiles).
//!
//!   replay harness <name> <vals.json>   run a proof harness natively on concrete values
//!   replay list                         harness names compiled in
//!   replay api <kind> <args.json>       public-API confirmations (see api.rs)
//!
//! exit: 0 harness ran to the end, no assertion failed   (counterexample NOT reproduced)
//!       1 an assertion / panic fired                       (reproduced)
//!       3 a kani::assume did not hold for these values    (values are not a harness input)
//!       4 usage / unknown harness
#![recursion_limit = "1024"]
#![allow(clippy::all)]

/// The Kani build wraps validator-level harnesses in a macro that attaches the dependency stub
/// set; natively the real dependencies run, so the wrapper is the identity.
macro_rules! with_validator_stubs {
  ($item:item) => {
    $item
  };
}

include!(concat!(env!("OUT_DIR"), "/harness_mods.rs"));
// harness modules refer to `crate::refmodel`
mod api;

use std::panic;

fn read_vals(path: &str) -> Vec<Vec<u8>> {
  let text = std::fs::read_to_string(path).expect("read vals file");
  let v: serde_json::Value = serde_json::from_str(&text).expect("json");
  let arr = if v.is_array() { v } else { v.get("vals").cloned().expect("vals key") };
  arr
    .as_array()
    .expect("array")
    .iter()
    .map(|x| x.as_array().expect("inner array").iter().map(|b| b.as_u64().unwrap() as u8).collect())
    .collect()
}

fn main() {
  let args: Vec<String> = std::env::args().collect();
  if args.len() >= 2 && args[1] == "list" {
    for h in HARNESSES {
      println!("{h}");
    }
    return;
  }
  if args.len() >= 4 && args[1] == "api" {
    std::process::exit(api::run(&args[2], &args[3]));
  }
  if args.len() < 4 || args[1] != "harness" {
    eprintln!("usage: replay harness <name> <vals.json> | replay list | replay api <kind> <args.json>");
    std::process::exit(4);
  }
  let name = args[2].clone();
  kani::load(read_vals(&args[3]));
  panic::set_hook(Box::new(|info| {
    if info.payload().downcast_ref::<kani::AssumptionViolated>().is_none() {
      eprintln!("replay: panic: {info}");
    }
  }));
  let r = panic::catch_unwind(|| run_harness(&name));
  match r {
    Ok(true) => {
      println!("replay: harness {name} completed, no assertion failed (unread values: {})", kani::remaining());
      std::process::exit(0);
    }
    Ok(false) => {
      eprintln!("replay: unknown harness {name}");
      std::process::exit(4);
    }
    Err(_) => {
      if kani::assumption_failed() {
        println!("replay: assumption violated for these values");
        std::process::exit(3);
      }
      println!("replay: REPRODUCED harness {name}: assertion or panic fired natively");
      std::process::exit(1);
    }
  }
}
