//! Native stand-in for the `kani` crate: the proof harnesses are compiled unchanged
//! (minus their `#[kani::…]` attributes) into the replay binary, and `kani::any()` pops
//! the concrete values a solver counterexample (or cover witness) assigned, in the order
//! Kani's concrete playback records them: one little-endian byte vector per primitive
//! nondeterministic value.

use std::cell::RefCell;
use std::collections::VecDeque;

thread_local! {
  static VALS: RefCell<VecDeque<Vec<u8>>> = RefCell::new(VecDeque::new());
  static ASSUME_FAILED: RefCell<bool> = RefCell::new(false);
  static EXHAUSTED: RefCell<bool> = RefCell::new(false);
}

pub struct AssumptionViolated;

pub fn load(vals: Vec<Vec<u8>>) {
  VALS.with(|v| *v.borrow_mut() = vals.into());
  ASSUME_FAILED.with(|a| *a.borrow_mut() = false);
  EXHAUSTED.with(|a| *a.borrow_mut() = false);
}
pub fn assumption_failed() -> bool {
  ASSUME_FAILED.with(|a| *a.borrow())
}
pub fn exhausted() -> bool {
  EXHAUSTED.with(|a| *a.borrow())
}
pub fn remaining() -> usize {
  VALS.with(|v| v.borrow().len())
}

fn pop<const N: usize>() -> [u8; N] {
  let next = VALS.with(|v| v.borrow_mut().pop_front());
  match next {
    Some(b) if b.len() == N => {
      let mut out = [0u8; N];
      out.copy_from_slice(&b);
      out
    }
    _ => {
      // Values beyond the recorded trace are unconstrained in the counterexample
      // (e.g. they were never read on the failing path): default to zero, and remember.
      EXHAUSTED.with(|a| *a.borrow_mut() = true);
      [0u8; N]
    }
  }
}

pub trait Arbitrary: Sized {
  fn any() -> Self;
}
macro_rules! int_arb {
  ($($t:ty),*) => {$(
    impl Arbitrary for $t {
      fn any() -> Self { <$t>::from_le_bytes(pop::<{ core::mem::size_of::<$t>() }>()) }
    }
  )*};
}
int_arb!(u8, u16, u32, u64, u128, usize, i8, i16, i32, i64, i128, isize);
impl Arbitrary for bool {
  fn any() -> Self {
    pop::<1>()[0] & 1 == 1
  }
}
impl Arbitrary for f64 {
  fn any() -> Self {
    f64::from_le_bytes(pop::<8>())
  }
}
impl<T: Arbitrary, const N: usize> Arbitrary for [T; N] {
  fn any() -> Self {
    core::array::from_fn(|_| T::any())
  }
}

pub fn any<T: Arbitrary>() -> T {
  T::any()
}

/// An assumption that does not hold means the concrete values are not a valid input of the
/// harness: unwind with a marker the replay driver recognises.
pub fn assume(cond: bool) {
  if !cond {
    ASSUME_FAILED.with(|a| *a.borrow_mut() = true);
    std::panic::panic_any(AssumptionViolated);
  }
}

#[macro_export]
macro_rules! cover {
  () => {};
  ($cond:expr) => {
    let _ = $cond;
  };
  ($cond:expr, $msg:literal) => {
    let _ = $cond;
  };
}
