//! C13 — CSV field coercion (`coerce_field`): a field becomes a number exactly when it
//! is spelled as a decimal integer (that fits u64/i64) or as a decimal/exponent float
//! with a finite value; otherwise it stays text. `f64::from_str` is replaced by its
//! documented contract (std docs grammar); u64/i64 parsing stays real.

use cddl::validator::csv_validator::verif_hooks as csvh;
use core::str::FromStr as FS;

fn d(c: u8) -> bool {
  c >= b'0' && c <= b'9'
}

/// std::f64::from_str grammar: [+-]? ( 'inf' | 'infinity' | 'nan' | Number ),
/// Number ::= ( Digit+ | Digit+ '.' Digit* | Digit* '.' Digit+ ) Exp? ; Exp ::= [eE][+-]?Digit+
/// Returns (is_spelling, is_named_nonfinite). Inputs are ≤ 8 bytes.
pub fn float_spelling(b: &[u8]) -> (bool, bool) {
  let n = b.len();
  let mut i = 0;
  if i < n && (b[i] == b'+' || b[i] == b'-') {
    i += 1;
  }
  let rest = n - i;
  let lower = |k: usize| b[i + k] | 0x20;
  if rest == 3 {
    if (lower(0) == b'i' && lower(1) == b'n' && lower(2) == b'f')
      || (lower(0) == b'n' && lower(1) == b'a' && lower(2) == b'n')
    {
      return (true, true);
    }
  }
  if rest == 8 {
    let w = b"infinity";
    let mut ok = true;
    let mut k = 0;
    while k < 8 {
      if lower(k) != w[k] {
        ok = false;
      }
      k += 1;
    }
    if ok {
      return (true, true);
    }
  }
  let mut digits = 0;
  while i < n && d(b[i]) {
    i += 1;
    digits += 1;
  }
  if i < n && b[i] == b'.' {
    i += 1;
    while i < n && d(b[i]) {
      i += 1;
      digits += 1;
    }
  }
  if digits == 0 {
    return (false, false);
  }
  if i < n && (b[i] == b'e' || b[i] == b'E') {
    i += 1;
    if i < n && (b[i] == b'+' || b[i] == b'-') {
      i += 1;
    }
    let mut ed = 0;
    while i < n && d(b[i]) {
      i += 1;
      ed += 1;
    }
    if ed == 0 {
      return (false, false);
    }
  }
  (i == n, false)
}

/// Contract stub for `<f64 as FromStr>::from_str`: Ok exactly on the documented grammar;
/// the value is nondeterministic (finite or not) for digit spellings and non-finite for
/// the named ones.
pub fn f64_stub(s: &str) -> Result<f64, core::num::ParseFloatError> {
  let (ok, named) = float_spelling(s.as_bytes());
  if ok {
    let v: f64 = kani::any();
    if named {
      kani::assume(!v.is_finite());
    } else if s.len() <= 3 {
      // a decimal spelling of at most three characters is at most 9e9 in magnitude
      kani::assume(v.is_finite());
    }
    Ok(v)
  } else {
    // ParseFloatError { kind: FloatErrorKind::Invalid } — a fieldless-enum newtype
    Err(unsafe { core::mem::transmute::<u8, core::num::ParseFloatError>(1) })
  }
}

/// Field of 0..=3 symbolic ASCII bytes.
#[kani::proof]
#[kani::unwind(6)]
#[kani::stub(<f64 as FS>::from_str, f64_stub)]
fn c13_coerce3() {
  let p: [u8; 3] = kani::any();
  let len: usize = kani::any();
  kani::assume(len <= 3);
  kani::assume(p[0] < 0x80 && p[1] < 0x80 && p[2] < 0x80);
  let s = unsafe { core::str::from_utf8_unchecked(&p[..len]) };
  let v = csvh::coerce_field(s);
  let b = &p[..len];
  let all_digits = len > 0 && (len < 1 || d(p[0])) && (len < 2 || d(p[1])) && (len < 3 || d(p[2]));
  let signed_int = len >= 2 && (p[0] == b'+' || p[0] == b'-') && d(p[1]) && (len < 3 || d(p[2]));
  let (fl, named) = float_spelling(b);
  if all_digits || signed_int {
    // decimal integer spelling that fits: must be a number
    assert!(v.is_number());
  }
  if len == 0 {
    assert!(v.is_string());
  }
  if !fl && !all_digits && !signed_int {
    assert!(v.is_string()); // not a decimal spelling at all: stays text
  }
  if named {
    assert!(v.is_string()); // inf / nan spellings stay text
  }
  if fl && !named {
    assert!(v.is_number()); // every decimal/exponent spelling this short is finite
  }
  if v.is_string() {
    // text keeps the field verbatim
    match &v {
      serde_json::Value::String(t) => {
        let tb = t.as_bytes();
        assert!(tb.len() == len);
        if len >= 1 {
          assert!(tb[0] == p[0]);
        }
        if len >= 2 {
          assert!(tb[1] == p[1]);
        }
        if len >= 3 {
          assert!(tb[2] == p[2]);
        }
      }
      _ => {}
    }
  }
  kani::cover!(v.is_number() && !all_digits && !signed_int);
  kani::cover!(v.is_string() && fl);
  kani::cover!(v.is_number() && signed_int);
  core::mem::forget(v);
}

/// Integer fields keep their exact value: ≤ 3 digits, optional sign.
#[kani::proof]
#[kani::unwind(6)]
#[kani::stub(<f64 as FS>::from_str, f64_stub)]
fn c13_coerce_int_value() {
  let neg: bool = kani::any();
  let dd: [u8; 3] = kani::any();
  kani::assume(d(dd[0]) && d(dd[1]) && d(dd[2]));
  let buf = [b'-', dd[0], dd[1], dd[2]];
  let s = unsafe { core::str::from_utf8_unchecked(if neg { &buf[..] } else { &buf[1..] }) };
  let v = csvh::coerce_field(s);
  let mag = (dd[0] - b'0') as i64 * 100 + (dd[1] - b'0') as i64 * 10 + (dd[2] - b'0') as i64;
  let want = if neg { -mag } else { mag };
  assert!(v.as_i64() == Some(want));
  kani::cover!(want == -999);
  core::mem::forget(v);
}

/// Overflow windows: "1844674407370955161"+d (u64 boundary) and "-922337203685477580"+d
/// (i64 boundary): in range ⇒ integer with the exact value; out of range ⇒ falls to the
/// float rule (number iff finite), never a wrapped integer.
#[kani::proof]
#[kani::unwind(24)]
#[kani::stub(<f64 as FS>::from_str, f64_stub)]
fn c13_coerce_overflow_windows() {
  let x: u8 = kani::any();
  kani::assume(d(x));
  let mut a = *b"18446744073709551610";
  a[19] = x;
  let va = csvh::coerce_field(unsafe { core::str::from_utf8_unchecked(&a) });
  let wa: u128 = 18446744073709551610u128 + (x - b'0') as u128;
  if wa <= u64::MAX as u128 {
    assert!(va.as_u64() == Some(wa as u64));
  } else {
    assert!(va.as_u64().is_none() && va.as_i64().is_none());
    assert!(va.is_f64() || va.is_string());
  }
  let mut b = *b"-9223372036854775800";
  b[19] = x;
  let vb = csvh::coerce_field(unsafe { core::str::from_utf8_unchecked(&b) });
  let wb: i128 = -9223372036854775800i128 - (x - b'0') as i128;
  if wb >= i64::MIN as i128 {
    assert!(vb.as_i64() == Some(wb as i64));
  } else {
    assert!(vb.as_i64().is_none() && vb.as_u64().is_none());
    assert!(vb.is_f64() || vb.is_string());
  }
  kani::cover!(wa > u64::MAX as u128);
  kani::cover!(wb < i64::MIN as i128);
  core::mem::forget(va);
  core::mem::forget(vb);
}
