//! C07 — literals denote exactly the value the RFC assigns, or are rejected.
//! Units: parse_u64_lit / parse_uint_lit / parse_int_lit, hex_decode, base64_decode,
//! clean_prefixed_byte_string (all through verif_hooks). Inputs are restricted to what
//! the grammar's token rule passes to the function (uint_value / int_value spellings),
//! written out here as the reference recogniser.

use crate::refmodel::*;
use cddl::pest_bridge::verif_hooks as h;

fn as_str(b: &[u8]) -> &str {
  // harness inputs are assumed ASCII before this is called
  unsafe { core::str::from_utf8_unchecked(b) }
}

/// Decimal `uint` of 1..=5 symbolic digits: DIGIT1 *DIGIT / "0".
#[kani::proof]
#[kani::unwind(7)]
fn c07_u64_dec5() {
  let p: [u8; 5] = kani::any();
  let n: usize = kani::any();
  kani::assume(n >= 1 && n <= 5);
  let mut v: u64 = 0;
  let mut i = 0;
  while i < 5 {
    if i < n {
      kani::assume(p[i] >= b'0' && p[i] <= b'9');
      v = v * 10 + (p[i] - b'0') as u64;
    }
    i += 1;
  }
  kani::assume(n == 1 || p[0] != b'0'); // no leading zeros (grammar)
  let r = h::parse_u64_lit(as_str(&p[..n]));
  assert!(r == Some(v));
  let r2 = h::parse_uint_lit(as_str(&p[..n]));
  assert!(r2 == Some(v as usize));
  kani::cover!(v == 65535);
}

/// Hex `uint`: "0x"/"0X" + 1..=4 symbolic hex digits (both cases).
#[kani::proof]
#[kani::unwind(8)]
fn c07_u64_hex4() {
  let mut buf = [b'0', b'x', 0, 0, 0, 0];
  if kani::any() {
    buf[1] = b'X';
  }
  let d: [u8; 4] = kani::any();
  let n: usize = kani::any();
  kani::assume(n >= 1 && n <= 4);
  let mut v: u64 = 0;
  let mut i = 0;
  while i < 4 {
    if i < n {
      let x = hex_digit(d[i]);
      kani::assume(x.is_some());
      v = v * 16 + x.unwrap() as u64;
      buf[2 + i] = d[i];
    }
    i += 1;
  }
  let r = h::parse_u64_lit(as_str(&buf[..2 + n]));
  assert!(r == Some(v));
  kani::cover!(v == 0xaBcD);
}

/// Binary `uint`: "0b"/"0B" + 1..=6 symbolic binary digits.
#[kani::proof]
#[kani::unwind(10)]
fn c07_u64_bin6() {
  let mut buf = [b'0', b'b', 0, 0, 0, 0, 0, 0];
  if kani::any() {
    buf[1] = b'B';
  }
  let d: [u8; 6] = kani::any();
  let n: usize = kani::any();
  kani::assume(n >= 1 && n <= 6);
  let mut v: u64 = 0;
  let mut i = 0;
  while i < 6 {
    if i < n {
      kani::assume(d[i] == b'0' || d[i] == b'1');
      v = v * 2 + (d[i] - b'0') as u64;
      buf[2 + i] = d[i];
    }
    i += 1;
  }
  let r = h::parse_u64_lit(as_str(&buf[..2 + n]));
  assert!(r == Some(v));
  kani::cover!(v == 0b101101);
}

/// Negative `int`: "-" + 1..=4 symbolic decimal digits; plus "-0x"/"-0b" one-digit forms.
#[kani::proof]
#[kani::unwind(8)]
fn c07_int_neg_dec4() {
  let mut buf = [b'-', 0, 0, 0, 0];
  let d: [u8; 4] = kani::any();
  let n: usize = kani::any();
  kani::assume(n >= 1 && n <= 4);
  let mut v: i64 = 0;
  let mut i = 0;
  while i < 4 {
    if i < n {
      kani::assume(d[i] >= b'0' && d[i] <= b'9');
      v = v * 10 + (d[i] - b'0') as i64;
      buf[1 + i] = d[i];
    }
    i += 1;
  }
  kani::assume(n == 1 || d[0] != b'0');
  let r = h::parse_int_lit(as_str(&buf[..1 + n]));
  assert!(r == Some((-v) as isize));
  kani::cover!(v == 1000);
  kani::cover!(v == 0);
}

/// Window around 2^64: "18446744073709551" + 3 symbolic digits (20-digit decimal):
/// Some(v) iff v <= u64::MAX, never wrapped.
#[kani::proof]
#[kani::unwind(22)]
fn c07_u64_window_2p64() {
  let mut buf = *b"18446744073709551000";
  let d: [u8; 3] = kani::any();
  kani::assume(d[0] >= b'0' && d[0] <= b'9');
  kani::assume(d[1] >= b'0' && d[1] <= b'9');
  kani::assume(d[2] >= b'0' && d[2] <= b'9');
  buf[17] = d[0];
  buf[18] = d[1];
  buf[19] = d[2];
  let tail = (d[0] - b'0') as u128 * 100 + (d[1] - b'0') as u128 * 10 + (d[2] - b'0') as u128;
  let v: u128 = 18446744073709551000u128 + tail;
  let r = h::parse_u64_lit(as_str(&buf));
  if v <= u64::MAX as u128 {
    assert!(r == Some(v as u64));
  } else {
    assert!(r.is_none());
  }
  kani::cover!(r.is_none());
  kani::cover!(r == Some(u64::MAX));
}

/// Window around 2^63 for `int` literals, both signs:
/// ["-"] "9223372036854775" + 3 symbolic digits. isize holds −2^63 ..= 2^63−1.
#[kani::proof]
#[kani::unwind(22)]
fn c07_int_window_2p63() {
  let neg: bool = kani::any();
  let mut buf = *b"-9223372036854775000";
  let d: [u8; 3] = kani::any();
  kani::assume(d[0] >= b'0' && d[0] <= b'9');
  kani::assume(d[1] >= b'0' && d[1] <= b'9');
  kani::assume(d[2] >= b'0' && d[2] <= b'9');
  buf[17] = d[0];
  buf[18] = d[1];
  buf[19] = d[2];
  let tail = (d[0] - b'0') as i128 * 100 + (d[1] - b'0') as i128 * 10 + (d[2] - b'0') as i128;
  let mag: i128 = 9223372036854775000i128 + tail;
  let s = if neg { as_str(&buf) } else { as_str(&buf[1..]) };
  let r = h::parse_int_lit(s);
  let v = if neg { -mag } else { mag };
  if v >= isize::MIN as i128 && v <= isize::MAX as i128 {
    assert!(r == Some(v as isize));
  } else {
    assert!(r.is_none());
  }
  kani::cover!(r == Some(isize::MIN));
  kani::cover!(r == Some(isize::MAX));
  kani::cover!(r.is_none() && neg);
  kani::cover!(r.is_none() && !neg);
}

/// Hex window at 2^64: "0x" + ("ffffffffffffff" + 2 symbolic digits | "1" + 15 zeros + 1 symbolic):
/// 16 digits always fit; 17 digits never do.
#[kani::proof]
#[kani::unwind(22)]
fn c07_u64_window_hex() {
  let d: [u8; 2] = kani::any();
  let x0 = hex_digit(d[0]);
  let x1 = hex_digit(d[1]);
  kani::assume(x0.is_some() && x1.is_some());
  let mut b16 = *b"0xffffffffffffff00";
  b16[16] = d[0];
  b16[17] = d[1];
  let want = 0xffff_ffff_ffff_ff00u64 | ((x0.unwrap() as u64) << 4) | x1.unwrap() as u64;
  assert!(h::parse_u64_lit(as_str(&b16)) == Some(want));
  let mut b17 = *b"0x10000000000000000";
  b17[18] = d[0];
  assert!(h::parse_u64_lit(as_str(&b17)).is_none());
  // and as a negative int literal: -0x8000000000000000 is isize::MIN, one more is unrepresentable
  let mut n16 = *b"-0x8000000000000000";
  n16[18] = d[0];
  let r = h::parse_int_lit(as_str(&n16));
  if x0.unwrap() == 0 {
    assert!(r == Some(isize::MIN));
  } else {
    assert!(r.is_none());
  }
  kani::cover!(want == u64::MAX);
}

/// `hex_decode` on 0..=4 symbolic bytes (any byte values): Ok(v) iff even length and all
/// hex digits (either case); v = nibble pairs.
#[kani::proof]
#[kani::unwind(6)]
fn c07_hex_decode4() {
  let p: [u8; 4] = kani::any();
  let n: usize = kani::any();
  kani::assume(n <= 4);
  let r = h::hex_decode(&p[..n]);
  let pair = |a: u8, b: u8| match (hex_digit(a), hex_digit(b)) {
    (Some(x), Some(y)) => Some((x << 4) | y),
    _ => None,
  };
  let w0 = pair(p[0], p[1]);
  let w1 = pair(p[2], p[3]);
  let ok = n % 2 == 0 && (n < 2 || w0.is_some()) && (n < 4 || w1.is_some());
  let w = [w0.unwrap_or(0), w1.unwrap_or(0)];
  match &r {
    Ok(v) => {
      assert!(ok);
      assert!(v.len() == n / 2);
      if n >= 2 {
        assert!(v[0] == w[0]);
      }
      if n >= 4 {
        assert!(v[1] == w[1]);
      }
    }
    Err(_) => assert!(!ok),
  }
  kani::cover!(r.is_ok() && n == 4);
  kani::cover!(r.is_err() && n == 4);
  core::mem::forget(r);
}

/// `base64_decode` on exactly 2 symbolic characters (no padding): one output byte.
/// Ok iff both are in one alphabet (classic or url), the 4 trailing bits are zero.
#[kani::proof]
#[kani::unwind(6)]
fn c07_b64_2() {
  let p: [u8; 2] = kani::any();
  let r = h::base64_decode(&p);
  let classic = p[0] == b'+' || p[0] == b'/' || p[1] == b'+' || p[1] == b'/';
  let url = p[0] == b'-' || p[0] == b'_' || p[1] == b'-' || p[1] == b'_';
  let mixed = classic && url;
  let s0 = b64_sextet(p[0], url);
  let s1 = b64_sextet(p[1], url);
  let want: Option<u8> = match (mixed, s0, s1) {
    (false, Some(a), Some(b)) if b & 0x0f == 0 => Some((a << 2) | (b >> 4)),
    _ => None,
  };
  match (&r, want) {
    (Ok(v), Some(w)) => {
      assert!(v.len() == 1);
      assert!(v[0] == w);
    }
    (Err(_), None) => {}
    _ => assert!(false),
  }
  kani::cover!(r.is_ok());
  kani::cover!(r.is_err() && mixed);
  core::mem::forget(r);
}

/// `base64_decode` on 3 symbolic characters (no padding): two output bytes.
#[kani::proof]
#[kani::unwind(7)]
fn c07_b64_3() {
  let p: [u8; 3] = kani::any();
  let r = h::base64_decode(&p);
  let is_c = |c: u8| c == b'+' || c == b'/';
  let is_u = |c: u8| c == b'-' || c == b'_';
  let classic = is_c(p[0]) || is_c(p[1]) || is_c(p[2]);
  let url = is_u(p[0]) || is_u(p[1]) || is_u(p[2]);
  let want: Option<[u8; 2]> =
    match (classic && url, b64_sextet(p[0], url), b64_sextet(p[1], url), b64_sextet(p[2], url)) {
      (false, Some(a), Some(b), Some(c)) if c & 0x03 == 0 => {
        Some([(a << 2) | (b >> 4), (b << 4) | (c >> 2)])
      }
      _ => None,
    };
  // '=' anywhere in a 3-character literal can never be canonical padding
  match (&r, want) {
    (Ok(v), Some(w)) => {
      assert!(v.len() == 2);
      assert!(v[0] == w[0] && v[1] == w[1]);
    }
    (Err(_), None) => {}
    _ => assert!(false),
  }
  kani::cover!(r.is_ok());
  kani::cover!(r.is_err());
  core::mem::forget(r);
}

/// `base64_decode` on 4 characters "xy==" / "xyz=" with canonical padding.
#[kani::proof]
#[kani::unwind(8)]
fn c07_b64_pad4() {
  let p: [u8; 3] = kani::any();
  let two_pad: bool = kani::any();
  let buf = if two_pad { [p[0], p[1], b'=', b'='] } else { [p[0], p[1], p[2], b'='] };
  kani::assume(p[0] != b'=' && p[1] != b'=' && (two_pad || p[2] != b'='));
  let r = h::base64_decode(&buf);
  let is_c = |c: u8| c == b'+' || c == b'/';
  let is_u = |c: u8| c == b'-' || c == b'_';
  let classic = is_c(p[0]) || is_c(p[1]) || (!two_pad && is_c(p[2]));
  let url = is_u(p[0]) || is_u(p[1]) || (!two_pad && is_u(p[2]));
  let s0 = b64_sextet(p[0], url);
  let s1 = b64_sextet(p[1], url);
  let s2 = b64_sextet(p[2], url);
  let mut want_len = 0usize;
  let mut w = [0u8; 2];
  if !(classic && url) {
    if two_pad {
      if let (Some(a), Some(b)) = (s0, s1) {
        if b & 0x0f == 0 {
          want_len = 1;
          w[0] = (a << 2) | (b >> 4);
        }
      }
    } else if let (Some(a), Some(b), Some(c)) = (s0, s1, s2) {
      if c & 0x03 == 0 {
        want_len = 2;
        w[0] = (a << 2) | (b >> 4);
        w[1] = (b << 4) | (c >> 2);
      }
    }
  }
  match &r {
    Ok(v) => {
      assert!(want_len != 0 && v.len() == want_len);
      assert!(v[0] == w[0]);
      if want_len == 2 {
        assert!(v[1] == w[1]);
      }
    }
    Err(_) => assert!(want_len == 0),
  }
  kani::cover!(r.is_ok() && two_pad);
  kani::cover!(r.is_ok() && !two_pad);
  core::mem::forget(r);
}

/// `clean_prefixed_byte_string` on 0..=3 symbolic ASCII bytes: deletes white space and
/// `;` comments (to end of line), keeps everything else in order.
#[kani::proof]
#[kani::unwind(6)]
fn c07_clean3() {
  let p: [u8; 3] = kani::any();
  let n: usize = kani::any();
  kani::assume(n <= 3);
  kani::assume(p[0] < 0x80 && p[1] < 0x80 && p[2] < 0x80);
  // VT and FF: Unicode white space but not RFC 8610 white space; either treatment is
  // acceptable (the literal is then rejected by the base decoder or not), so don't-care.
  kani::assume(p[0] != 0x0b && p[0] != 0x0c && p[1] != 0x0b && p[1] != 0x0c && p[2] != 0x0b && p[2] != 0x0c);
  let out = h::clean_prefixed_byte_string(as_str(&p[..n]));
  let mut w = [0u8; 3];
  let mut wl = 0usize;
  let mut in_comment = false;
  let mut i = 0;
  while i < 3 {
    if i < n {
      let c = p[i];
      if in_comment {
        if c == b'\n' {
          in_comment = false;
        }
      } else if c == b';' {
        in_comment = true;
      } else if !(c == b' ' || c == b'\t' || c == b'\n' || c == b'\r') {
        w[wl] = c;
        wl += 1;
      }
    }
    i += 1;
  }
  let ob = out.as_bytes();
  assert!(ob.len() == wl);
  let mut k = 0;
  while k < 3 {
    if k < wl {
      assert!(ob[k] == w[k]);
    }
    k += 1;
  }
  kani::cover!(wl == 3);
  kani::cover!(wl == 0 && n == 3);
  core::mem::forget(out);
}

/// `base64_decode` on 4 bytes, each drawn from a small alphabet that contains the padding
/// character, one character of each alphabet and plain sextets: all 6^4 combinations
/// against the RFC 4648 reference (canonical padding only at the end, at most two).
#[kani::proof]
#[kani::unwind(8)]
fn c07_b64_4small() {
  const ALPHA: [u8; 6] = [b'=', b'A', b'g', b'/', b'_', b'Q'];
  let k: [u8; 4] = kani::any();
  kani::assume(k[0] < 6 && k[1] < 6 && k[2] < 6 && k[3] < 6);
  let p = [ALPHA[k[0] as usize], ALPHA[k[1] as usize], ALPHA[k[2] as usize], ALPHA[k[3] as usize]];
  let r = h::base64_decode(&p);
  let want = ref_b64_decode(&p);
  match (&r, &want) {
    (Ok(v), Some(w)) => {
      assert!(v.len() == w.len());
      let mut i = 0;
      while i < 3 {
        if i < v.len() {
          assert!(v[i] == w[i]);
        }
        i += 1;
      }
    }
    (Err(_), None) => {}
    _ => assert!(false),
  }
  kani::cover!(r.is_ok() && p[3] == b'=' && p[2] == b'=');
  kani::cover!(r.is_ok() && p[3] != b'=');
  kani::cover!(r.is_err() && p[0] == b'=');
  core::mem::forget(r);
  core::mem::forget(want);
}

/// Padding forms on a fixed two-character body: "QQ" + x + y with x, y in {'=', 'A'}:
/// only "QQ==" (canonical) and "QQAA" (no padding) decode; "QQ=A" and "QQA=" do not
/// ("QQA=" has non-zero trailing bits? no: 'A' = 0 — it is canonical for two bytes).
#[kani::proof]
#[kani::unwind(8)]
fn c07_b64_padforms() {
  let x: bool = kani::any();
  let y: bool = kani::any();
  let p = [b'Q', b'Q', if x { b'=' } else { b'A' }, if y { b'=' } else { b'A' }];
  let r = h::base64_decode(&p);
  let want = ref_b64_decode(&p);
  assert!(r.is_ok() == want.is_some());
  kani::cover!(r.is_ok() && x && y);
  kani::cover!(r.is_err());
  core::mem::forget(r);
  core::mem::forget(want);
}
