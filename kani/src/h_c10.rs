//! C10 — map validation does not depend on entry order: the assignment kernels.
//! Units: CBORValidator::augment_single_entry_assignment (Kuhn augmenting path) driven
//! exactly as try_reassign_failed_single_entries drives it; find_unconsumed_map_entry,
//! collect_unconsumed_map_entries_matching, is_unconsumed_map_entry.

use cddl::validator::cbor::verif_hooks as cb;
use cddl::validator::cbor_value::Value;

/// The assignment loop of `try_reassign_failed_single_entries` for k claims and k entries.
fn assign2(m: &[[bool; 2]; 2]) -> (bool, [Option<usize>; 2]) {
  let compat = vec![vec![m[0][0], m[0][1]], vec![m[1][0], m[1][1]]];
  let mut owners: Vec<Option<usize>> = vec![None, None];
  let mut vis0 = vec![false, false];
  let ok0 = cb::augment_single_entry_assignment(0, &compat, &mut vis0, &mut owners);
  let mut vis1 = vec![false, false];
  let ok1 = ok0 && cb::augment_single_entry_assignment(1, &compat, &mut vis1, &mut owners);
  let o = [owners[0], owners[1]];
  core::mem::forget(compat);
  core::mem::forget(owners);
  core::mem::forget(vis0);
  core::mem::forget(vis1);
  (ok1, o)
}

/// 2 claims × 2 entries, every compatibility matrix: the loop succeeds iff a perfect
/// matching exists; on success every claim owns a distinct compatible entry. Since the
/// existence of a perfect matching does not depend on the order of rows or columns, the
/// outcome is invariant under permuting the entries (physical order) and the claims.
#[kani::proof]
#[kani::unwind(3)]
fn c10_kuhn_2x2() {
  let m: [[bool; 2]; 2] = kani::any();
  let (ok, owners) = assign2(&m);
  let perfect = (m[0][0] && m[1][1]) || (m[0][1] && m[1][0]);
  assert!(ok == perfect);
  if ok {
    match (owners[0], owners[1]) {
      (Some(c0), Some(c1)) => {
        assert!(c0 != c1 && c0 < 2 && c1 < 2);
        assert!(m[c0][0] && m[c1][1]);
      }
      _ => assert!(false),
    }
  }
  // Invariance under permuting entries (columns) or members (rows) follows: `perfect` is
  // symmetric under both, and ok == perfect for every matrix.
  kani::cover!(ok && m[0][0] && m[0][1] && m[1][0] && !m[1][1]);
  kani::cover!(!ok && (m[0][0] || m[0][1]) && (m[1][0] || m[1][1]));
}

fn assign3(m: &[[bool; 3]; 3]) -> (bool, [Option<usize>; 3]) {
  let compat = vec![
    vec![m[0][0], m[0][1], m[0][2]],
    vec![m[1][0], m[1][1], m[1][2]],
    vec![m[2][0], m[2][1], m[2][2]],
  ];
  let mut owners: Vec<Option<usize>> = vec![None, None, None];
  let mut v0 = vec![false, false, false];
  let ok0 = cb::augment_single_entry_assignment(0, &compat, &mut v0, &mut owners);
  let mut v1 = vec![false, false, false];
  let ok1 = ok0 && cb::augment_single_entry_assignment(1, &compat, &mut v1, &mut owners);
  let mut v2 = vec![false, false, false];
  let ok2 = ok1 && cb::augment_single_entry_assignment(2, &compat, &mut v2, &mut owners);
  let o = [owners[0], owners[1], owners[2]];
  core::mem::forget(compat);
  core::mem::forget(owners);
  core::mem::forget(v0);
  core::mem::forget(v1);
  core::mem::forget(v2);
  (ok2, o)
}

/// 3 × 3: success iff one of the 3! permutations is a perfect matching (thorough tier;
/// claimed only if it completes).
#[kani::proof]
#[kani::unwind(4)]
fn c10_kuhn_3x3() {
  let m: [[bool; 3]; 3] = kani::any();
  let (ok, owners) = assign3(&m);
  let perfect = (m[0][0] && m[1][1] && m[2][2])
    || (m[0][0] && m[1][2] && m[2][1])
    || (m[0][1] && m[1][0] && m[2][2])
    || (m[0][1] && m[1][2] && m[2][0])
    || (m[0][2] && m[1][0] && m[2][1])
    || (m[0][2] && m[1][1] && m[2][0]);
  assert!(ok == perfect);
  if ok {
    match (owners[0], owners[1], owners[2]) {
      (Some(a), Some(b), Some(c)) => {
        assert!(a != b && b != c && a != c);
        assert!(m[a][0] && m[b][1] && m[c][2]);
      }
      _ => assert!(false),
    }
  }
  kani::cover!(ok);
  kani::cover!(!ok);
}

/// Ledger lookups over a 3-entry map with a symbolic key predicate (one bit per entry,
/// keyed by the entry's integer key 0/1/2 — *equal keys are allowed*: keys are symbolic in
/// 0..=1) and a symbolic ledger of ≤ 2 claimed indices: `find_unconsumed_map_entry`
/// returns the least index whose key satisfies the predicate and which is not claimed;
/// `collect_…` returns exactly those indices in order; a claimed index is never returned,
/// and two entries with equal keys stay distinct.
#[kani::proof]
#[kani::unwind(5)]
fn c10_ledger3() {
  let keys: [u8; 3] = kani::any();
  kani::assume(keys[0] <= 1 && keys[1] <= 1 && keys[2] <= 1);
  let entries: Vec<(Value, Value)> = vec![
    (Value::Simple(keys[0]), Value::Null),
    (Value::Simple(keys[1]), Value::Null),
    (Value::Simple(keys[2]), Value::Null),
  ];
  let want_key: u8 = kani::any();
  kani::assume(want_key <= 1);
  let c: [usize; 2] = kani::any();
  let nc: usize = kani::any();
  kani::assume(nc <= 2 && c[0] < 3 && c[1] < 3);
  let claimed = &c[..nc];
  let pred = |k: &Value| matches!(k, Value::Simple(x) if *x == want_key);
  let is_claimed = |i: usize| (nc >= 1 && c[0] == i) || (nc >= 2 && c[1] == i);
  let elig = [
    keys[0] == want_key && !is_claimed(0),
    keys[1] == want_key && !is_claimed(1),
    keys[2] == want_key && !is_claimed(2),
  ];
  let first = if elig[0] {
    Some(0usize)
  } else if elig[1] {
    Some(1)
  } else if elig[2] {
    Some(2)
  } else {
    None
  };
  let found = cb::find_unconsumed_map_entry(&entries, claimed, pred).map(|(i, _)| i);
  assert!(found == first);
  let all = cb::collect_unconsumed_map_entries_matching(&entries, claimed, pred);
  let cnt = elig[0] as usize + elig[1] as usize + elig[2] as usize;
  assert!(all.len() == cnt);
  let mut k = 0;
  let mut j = 0;
  while k < 3 {
    if elig[k] {
      assert!(all[j] == k);
      j += 1;
    }
    k += 1;
  }
  assert!(cb::is_unconsumed_map_entry(0, claimed) == !is_claimed(0));
  kani::cover!(cnt == 2 && nc == 1);
  kani::cover!(found == Some(2));
  kani::cover!(found.is_none() && keys[0] == want_key);
  core::mem::forget(entries);
  core::mem::forget(all);
}

/// The claim ledger works on physical indices of any size: a map of 66 entries (more than
/// a machine word of bits), one claimed index k symbolic in 0..66, predicate true for every
/// key: the unconsumed set is exactly all indices except k, in order.
#[kani::proof]
#[kani::unwind(68)]
fn c10_ledger_wide() {
  const N: usize = 66;
  let mut entries: Vec<(Value, Value)> = Vec::with_capacity(N);
  let mut i = 0;
  while i < N {
    entries.push((Value::Null, Value::Null));
    i += 1;
  }
  let k: usize = kani::any();
  kani::assume(k < N);
  let claimed = [k];
  let all = cb::collect_unconsumed_map_entries_matching(&entries, &claimed, |_| true);
  assert!(all.len() == N - 1);
  let j: usize = kani::any();
  kani::assume(j < N - 1);
  assert!(all[j] == if j < k { j } else { j + 1 });
  let first = cb::find_unconsumed_map_entry(&entries, &claimed, |_| true).map(|(i, _)| i);
  assert!(first == Some(if k == 0 { 1 } else { 0 }));
  kani::cover!(k == 65);
  kani::cover!(k == 0);
  core::mem::forget(entries);
  core::mem::forget(all);
}
