//! C09 (prelude identities) and C02 (numeric key-domain predicate) at kernel level.
//! Units: numeric_ident_matches_cbor_value, is_bignum_value (hooks), ident_numeric_kind,
//! ident_matches_bool_value, is_ident_*_data_type (public) on a schema without alias
//! rules — the table part of the name chasers. Oracle: RFC 8610 Appendix D.

use cddl::ast::{Identifier, CDDL};
use cddl::validator::cbor::verif_hooks as cb;
use cddl::validator::cbor_value::Value;
use cddl::validator::{
  ident_matches_bool_value, ident_numeric_kind, is_ident_bool_data_type,
  is_ident_byte_string_data_type, is_ident_null_data_type, is_ident_string_data_type,
};
use core::convert::TryFrom;

fn id(s: &'static str) -> Identifier<'static> {
  Identifier { ident: s, socket: None, span: (0, 0, 0) }
}

fn any_cbor_int() -> (i128, Value) {
  let n: i128 = kani::any();
  kani::assume(n >= -(1i128 << 64) && n < (1i128 << 64));
  (n, Value::Integer(ciborium::value::Integer::try_from(n).unwrap()))
}

/// Appendix D over the whole CBOR head range −2^64 … 2^64−1: uint = #0, nint = #1,
/// int = uint / nint.
#[kani::proof]
#[kani::unwind(12)]
fn c09_prelude_int_uint_nint() {
  let cddl = CDDL { rules: vec![], comments: None };
  let (n, v) = any_cbor_int();
  let m = |s: &'static str| cb::numeric_ident_matches_cbor_value(&cddl, &id(s), &v);
  let uint = m("uint");
  let nint = m("nint");
  let int = m("int");
  assert!(uint == (n >= 0));
  assert!(nint == (n < 0));
  assert!(int == (uint || nint));
  assert!(int);
  kani::cover!(n == -(1i128 << 64));
  kani::cover!(n == (1i128 << 64) - 1);
  kani::cover!(n == -1);
  core::mem::forget(cddl);
}

/// integer ⊇ int, unsigned ⊇ uint (never a negative), number = int / float — integer side.
#[kani::proof]
#[kani::unwind(12)]
fn c09_prelude_integer_unsigned_number() {
  let cddl = CDDL { rules: vec![], comments: None };
  let (n, v) = any_cbor_int();
  let m = |s: &'static str| cb::numeric_ident_matches_cbor_value(&cddl, &id(s), &v);
  assert!(m("integer"));
  assert!(m("unsigned") == (n >= 0));
  assert!(m("number"));
  kani::cover!(n < 0);
  kani::cover!(n > u64::MAX as i128 - 1);
  core::mem::forget(cddl);
}

/// An integer belongs to no float type and to no non-numeric prelude type.
#[kani::proof]
#[kani::unwind(12)]
fn c09_prelude_int_not_float() {
  let cddl = CDDL { rules: vec![], comments: None };
  let (n, v) = any_cbor_int();
  let m = |s: &'static str| cb::numeric_ident_matches_cbor_value(&cddl, &id(s), &v);
  assert!(!m("float") && !m("float16") && !m("float32") && !m("float64"));
  assert!(!m("float16-32") && !m("float32-64"));
  assert!(!m("tstr") && !m("bool") && !m("bstr") && !m("nil"));
  kani::cover!(n == 0);
  core::mem::forget(cddl);
}

/// Every float (any bits, NaN and infinities included) belongs to number and to the float
/// types, and to no integer type.
#[kani::proof]
#[kani::unwind(12)]
fn c09_prelude_float_side() {
  let cddl = CDDL { rules: vec![], comments: None };
  let bits: u64 = kani::any();
  let v = Value::Float(f64::from_bits(bits));
  let m = |s: &'static str| cb::numeric_ident_matches_cbor_value(&cddl, &id(s), &v);
  assert!(!m("uint") && !m("nint") && !m("int") && !m("integer") && !m("unsigned"));
  assert!(m("number"));
  assert!(m("float") && m("float16") && m("float32") && m("float64"));
  assert!(m("float16-32") && m("float32-64"));
  kani::cover!(bits == 0x7ff8_0000_0000_0000);
  core::mem::forget(cddl);
}

/// Non-numeric values belong to no numeric domain.
#[kani::proof]
#[kani::unwind(12)]
fn c09_prelude_non_numeric_values() {
  let cddl = CDDL { rules: vec![], comments: None };
  let b: bool = kani::any();
  let s: u8 = kani::any();
  let v1 = Value::Null;
  let v2 = Value::Bool(b);
  let v3 = Value::Simple(s);
  assert!(!cb::numeric_ident_matches_cbor_value(&cddl, &id("number"), &v1));
  assert!(!cb::numeric_ident_matches_cbor_value(&cddl, &id("number"), &v2));
  assert!(!cb::numeric_ident_matches_cbor_value(&cddl, &id("number"), &v3));
  assert!(!cb::numeric_ident_matches_cbor_value(&cddl, &id("int"), &v3));
  assert!(!cb::numeric_ident_matches_cbor_value(&cddl, &id("float"), &v2));
  kani::cover!(b && s == 255);
  core::mem::forget(cddl);
  core::mem::forget(v1);
  core::mem::forget(v2);
  core::mem::forget(v3);
}

/// biguint = #6.2(bstr), bignint = #6.3(bstr), bigint = biguint / bignint; every tag number.
#[kani::proof]
#[kani::unwind(12)]
fn c09_prelude_bignum() {
  let cddl = CDDL { rules: vec![], comments: None };
  let tag: u64 = kani::any();
  let bytes_inner: bool = kani::any();
  let inner = if bytes_inner { Value::Bytes(Vec::new()) } else { Value::Null };
  let v = Value::Tag(tag, Box::new(inner));
  let m = |s: &'static str| cb::is_bignum_value(&cddl, &id(s), &v);
  let bu = m("biguint");
  let bn = m("bignint");
  assert!(bu == (tag == 2 && bytes_inner));
  assert!(bn == (tag == 3 && bytes_inner));
  assert!(m("bigint") == (bu || bn));
  assert!(!m("uint") && !m("int") && !m("bstr"));
  kani::cover!(bu);
  kani::cover!(bn);
  core::mem::forget(cddl);
  core::mem::forget(v);
}

/// Classification-level identities: number = int / float (NumericKind), bool = false / true,
/// nil = null, text = tstr, bytes = bstr.
#[kani::proof]
#[kani::unwind(12)]
fn c09_prelude_classes() {
  use cddl::validator::NumericKind as K;
  let cddl = CDDL { rules: vec![], comments: None };
  assert!(ident_numeric_kind(&cddl, &id("number")) == Some(K::Both));
  assert!(ident_numeric_kind(&cddl, &id("int")) == Some(K::Int));
  assert!(ident_numeric_kind(&cddl, &id("uint")) == Some(K::Int));
  assert!(ident_numeric_kind(&cddl, &id("nint")) == Some(K::Int));
  assert!(ident_numeric_kind(&cddl, &id("float")) == Some(K::Float));
  assert!(ident_numeric_kind(&cddl, &id("float16")) == Some(K::Float));
  assert!(ident_numeric_kind(&cddl, &id("float64")) == Some(K::Float));
  assert!(ident_numeric_kind(&cddl, &id("tstr")).is_none());
  assert!(ident_numeric_kind(&cddl, &id("bool")).is_none());
  let b: bool = kani::any();
  assert!(ident_matches_bool_value(&cddl, &id("true"), b) == b);
  assert!(ident_matches_bool_value(&cddl, &id("false"), b) == !b);
  assert!(is_ident_bool_data_type(&cddl, &id("bool")));
  assert!(!is_ident_bool_data_type(&cddl, &id("int")));
  assert!(is_ident_null_data_type(&cddl, &id("nil")) && is_ident_null_data_type(&cddl, &id("null")));
  assert!(!is_ident_null_data_type(&cddl, &id("bool")));
  assert!(is_ident_string_data_type(&cddl, &id("text")) && is_ident_string_data_type(&cddl, &id("tstr")));
  assert!(!is_ident_string_data_type(&cddl, &id("bstr")));
  assert!(is_ident_byte_string_data_type(&cddl, &id("bytes")) && is_ident_byte_string_data_type(&cddl, &id("bstr")));
  assert!(!is_ident_byte_string_data_type(&cddl, &id("tstr")));
  kani::cover!(b);
  core::mem::forget(cddl);
}

/// `token_value_into_cbor_value`: a literal's CBOR value is the literal's value for every
/// usize / isize (C02: literals compared as data-model values, integers through i128).
#[kani::proof]
#[kani::unwind(12)]
fn c02_token_value_int() {
  use cddl::token::Value as TV;
  let u: usize = kani::any();
  let i: isize = kani::any();
  match cddl::validator::cbor::token_value_into_cbor_value(TV::UINT(u)) {
    Value::Integer(x) => assert!(i128::from(x) == u as i128),
    _ => assert!(false),
  }
  match cddl::validator::cbor::token_value_into_cbor_value(TV::INT(i)) {
    Value::Integer(x) => assert!(i128::from(x) == i as i128),
    _ => assert!(false),
  }
  let bits: u64 = kani::any();
  match cddl::validator::cbor::token_value_into_cbor_value(TV::FLOAT(f64::from_bits(bits))) {
    Value::Float(f) => assert!(f.to_bits() == bits),
    _ => assert!(false),
  }
  kani::cover!(u == usize::MAX && i == isize::MIN);
}
