//! C05 — no panic / abort / hang: targeted harnesses for the mechanisms the property
//! names that are within reach. (Every other harness also keeps Kani's default checks —
//! panics, overflow, bounds, unwinding assertions — switched on.)

use cddl::validator::cbor_value::verif_hooks as cv;
use cddl::pest_bridge::verif_hooks as h;
use ciborium_ll::Decoder;

/// "A length announced in a CBOR head is never trusted for allocation":
/// `read_bytes(Some(n))` with n a fully symbolic usize ≥ 2 on a 1-byte reader must
/// return Err without panicking (Kani models `capacity overflow` as a panic).
#[kani::proof]
#[kani::unwind(3)]
fn c05_alloc_read_bytes() {
  let p: [u8; 1] = kani::any();
  let n: usize = kani::any();
  kani::assume(n >= 2);
  let mut d = Decoder::from(&p[..]);
  let r = cv::read_bytes(&mut d, Some(n));
  kani::cover!(n > isize::MAX as usize);
  assert!(r.is_err());
  core::mem::forget(r);
}

// (read_text shares read_payload with read_bytes; a separate harness with a fully symbolic
// length did not complete: CBMC cannot discharge String::from_utf8 over a symbolic-size buffer)

/// `decode_array(Some(n))` / `decode_map(Some(n))` with symbolic n ≥ 1 on an empty
/// reader: Err, no panic from `Vec::with_capacity(n)`.
#[kani::proof]
#[kani::unwind(3)]
fn c05_alloc_array_map() {
  let n: usize = kani::any();
  kani::assume(n >= 1);
  let empty: [u8; 0] = [];
  let mut d = Decoder::from(&empty[..]);
  let r = cv::decode_array(&mut d, Some(n));
  kani::cover!(n > (isize::MAX as usize) / 8);
  assert!(r.is_err());
  core::mem::forget(r);
  let mut d2 = Decoder::from(&empty[..]);
  let r2 = cv::decode_map(&mut d2, Some(n));
  assert!(r2.is_err());
  core::mem::forget(r2);
}

/// Literal decoders never panic on arbitrary (not only grammar-valid) ASCII text of ≤ 4 bytes.
#[kani::proof]
#[kani::unwind(8)]
fn c05_literal_decoders_total() {
  let p: [u8; 4] = kani::any();
  let n: usize = kani::any();
  kani::assume(n <= 4);
  kani::assume(p[0] < 0x80 && p[1] < 0x80 && p[2] < 0x80 && p[3] < 0x80);
  let s = unsafe { core::str::from_utf8_unchecked(&p[..n]) };
  let a = h::parse_u64_lit(s);
  let b = h::parse_int_lit(s);
  let c = h::parse_uint_lit(s);
  kani::cover!(a.is_some() && b.is_some() && c.is_some());
  kani::cover!(a.is_none());
}

/// "A length announced in a CBOR head is never trusted for allocation", for a *chunk* of an
/// indefinite-length byte string: after one complete one-byte chunk (`41 xx`), a chunk head
/// `5b` announcing any 64-bit length ≥ 1 with no payload following must make
/// `read_bytes(None)` return Err — no panic from length arithmetic on the accumulated
/// buffer, no allocation sized from the announced length.
#[kani::proof]
#[kani::unwind(4)]
fn c05_alloc_indef_chunk() {
  let a: u8 = kani::any();
  let l: [u8; 8] = kani::any();
  kani::assume(u64::from_be_bytes(l) >= 1);
  let p: [u8; 11] = [0x41, a, 0x5b, l[0], l[1], l[2], l[3], l[4], l[5], l[6], l[7]];
  let mut d = Decoder::from(&p[..]);
  let r = cv::read_bytes(&mut d, None);
  kani::cover!(u64::from_be_bytes(l) == u64::MAX);
  kani::cover!(u64::from_be_bytes(l) == 1);
  assert!(r.is_err());
  core::mem::forget(r);
}
