//! C03 — control operators are limited to the registered names the crate documents: the
//! name table of `token::lookup_control_from_str` and the printer of `ControlOperator`
//! agree for every registered name (index symbolic over the table).

use cddl::token::lookup_control_from_str;

const NAMES: [&str; 37] = [
  ".size", ".bits", ".regexp", ".pcre", ".iregexp", ".cbor", ".cborseq", ".within", ".and", ".lt",
  ".le", ".gt", ".ge", ".eq", ".ne", ".default", ".cat", ".det", ".plus", ".abnfb", ".abnf",
  ".feature", ".b64u-sloppy", ".b64c-sloppy", ".b64u", ".b64c", ".hexuc", ".hexlc", ".hex",
  ".base10", ".printf", ".json", ".join", ".b32", ".h32", ".b45", ".bitfield",
];

#[kani::proof]
#[kani::unwind(16)]
fn c03_control_table() {
  let i: usize = kani::any();
  kani::assume(i < 37);
  let name = NAMES[i];
  let op = lookup_control_from_str(name);
  match op {
    Some(op) => {
      let shown = op.to_string();
      assert!(shown.as_bytes().len() == name.len());
      let mut k = 0;
      while k < 13 {
        if k < name.len() {
          assert!(shown.as_bytes()[k] == name.as_bytes()[k]);
        }
        k += 1;
      }
      core::mem::forget(shown);
    }
    None => assert!(false),
  }
  kani::cover!(i == 23);
}
