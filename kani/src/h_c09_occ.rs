//! C09 — occurrence indicators of repeating map members: `? x`, `* x`, `+ x` are
//! interchangeable with `0*1 x`, `0* x`, `1* x` (lower-bound side: validate_repeating_member_count;
//! upper-bound side: repeating_member_upper_bound), in both validators.

use cddl::ast::{Occur, Occurrence, Type, ValueMemberKeyEntry, CDDL};
use core::marker::PhantomData;

fn entry(o: Occur) -> ValueMemberKeyEntry<'static> {
  ValueMemberKeyEntry {
    occur: Some(Occurrence { occur: o, comments: None, _a: PhantomData }),
    member_key: None,
    entry_type: Type { type_choices: Vec::new(), span: (0, 0, 0) },
  }
}

static mut CTR: u8 = 0;
/// `alloc::fmt::format` stub: the verdict never depends on message text; each call returns a
/// fresh short string.
pub fn fmt_stub(_a: core::fmt::Arguments<'_>) -> String {
  unsafe {
    CTR = CTR.wrapping_add(1);
    let mut s = String::new();
    s.push((b'a' + (CTR % 26)) as char);
    s
  }
}

/// `RandomState::new` reads the OS random source through a syscall Kani does not model. No
/// hash is ever computed on these paths (the set stays empty); a fixed state is supplied.
pub fn rs_stub() -> std::hash::RandomState {
  unsafe { core::mem::transmute::<(u64, u64), std::hash::RandomState>((0, 0)) }
}

macro_rules! occ_harness {
  ($name:ident, $validator:ty, $hooks:path, $mk:expr) => {
    #[kani::proof]
    #[kani::unwind(4)]
    #[kani::stub(alloc::fmt::format, fmt_stub)]
    #[kani::stub(std::hash::RandomState::new, rs_stub)]
    fn $name() {
      use $hooks as hk;
      let cddl = CDDL { rules: vec![], comments: None };
      let count: usize = kani::any();
      kani::assume(count <= 3);
      let lo: usize = kani::any();
      let hi: usize = kani::any();
      kani::assume(lo <= 3 && hi <= 3 && lo <= hi);
      let has_hi: bool = kani::any();
      let which: u8 = kani::any();
      kani::assume(which < 5);
      // the occurrence under test and the minimum it denotes
      let (occ, min, max): (Occur, usize, Option<usize>) = match which {
        0 => (Occur::Optional { span: (0, 0, 0) }, 0, Some(1)),
        1 => (Occur::ZeroOrMore { span: (0, 0, 0) }, 0, None),
        2 => (Occur::OneOrMore { span: (0, 0, 0) }, 1, None),
        3 => (Occur::Exact { lower: Some(lo), upper: if has_hi { Some(hi) } else { None }, span: (0, 0, 0) }, lo, if has_hi { Some(hi) } else { None }),
        _ => (Occur::Exact { lower: None, upper: Some(hi), span: (0, 0, 0) }, 0, Some(hi)),
      };
      let e = entry(occ);
      let mut v: $validator = ($mk)(&cddl);
      hk::validate_repeating_member_count(&mut v, &e, count);
      let errs = hk::error_count(&v);
      assert!((errs > 0) == (count < min));
      // upper bound: only n*m forms carry one here; `?` is bounded by the single-entry path
      let ub = hk::repeating_member_upper_bound(&e);
      if which >= 3 {
        assert!(ub == max);
      }
      kani::cover!(errs > 0 && which == 3 && !has_hi);
      kani::cover!(errs == 0 && which == 2);
      core::mem::forget(v);
      core::mem::forget(e);
      core::mem::forget(cddl);
    }
  };
}

occ_harness!(
  c09_occ_repeating_cbor,
  cddl::validator::cbor::CBORValidator<'_>,
  cddl::validator::cbor::verif_hooks_occ,
  |c| cddl::validator::cbor::CBORValidator::new(c, cddl::validator::cbor_value::Value::Null, None)
);
occ_harness!(
  c09_occ_repeating_json,
  cddl::validator::json::JSONValidator<'_>,
  cddl::validator::json::verif_hooks_occ,
  |c| cddl::validator::json::JSONValidator::new(c, serde_json::Value::Null, None)
);
