//! C15 — source positions are accurate: the position arithmetic kernels.
//! Units: compute_error_range, scan_token_end, scan_token_start, the span→Position
//! helpers (hooks fed with pest::Span::new).

#[allow(unused_imports)]
use crate::refmodel::*;
use cddl::pest_bridge::verif_hooks as h;

#[allow(dead_code)]
fn is_ws(c: u8) -> bool {
  // u8::is_ascii_whitespace: SP, HT, LF, FF, CR
  c == b' ' || c == b'\t' || c == b'\n' || c == 0x0c || c == b'\r'
}
#[allow(dead_code)]
fn is_tok(c: u8) -> bool {
  c.is_ascii_alphanumeric() || c == b'_' || c == b'-' || c == b'.' || c == b'$' || c == b'@'
}
#[allow(dead_code)]
fn is_tok_start(c: u8) -> bool {
  c.is_ascii_alphanumeric() || c == b'_' || c == b'$' || c == b'@'
}

/// `compute_error_range(index, input)` for every ASCII input of ≤ 6 bytes and every
/// index ≤ len: the range lies inside the input and is non-inverted (0 ≤ start ≤ end ≤ len).
/// Index arithmetic on untrusted text: no out-of-bounds access, no underflow (C05).
#[kani::proof]
#[kani::unwind(8)]
fn c15_error_range_ascii6() {
  let p: [u8; 6] = kani::any();
  let n: usize = kani::any();
  kani::assume(n <= 6);
  let idx: usize = kani::any();
  kani::assume(idx <= n);
  let mut i = 0;
  while i < 6 {
    kani::assume(p[i] < 0x80);
    i += 1;
  }
  let s = unsafe { core::str::from_utf8_unchecked(&p[..n]) };
  let (a, b) = h::compute_error_range(idx, s);
  assert!(a <= b && b <= n);
  kani::cover!(a < idx && b < idx);
  kani::cover!(a == idx && b == idx + 3);
  kani::cover!(a == idx && b == idx && n == 6);
}

/// `convert_pest_error` on a pest error placed at a symbolic char-boundary position of a
/// symbolic ASCII input of ≤ 4 bytes (public API; the pest error is built with the public
/// `Error::new_from_pos`): index = range.0, range inside the input and non-inverted,
/// line/column are those of `index` (1-based, column in characters).
pub fn msg_stub(
  _error: &pest::error::Error<cddl::pest_parser::Rule>,
  _input: &str,
) -> (String, Option<String>) {
  (String::new(), None)
}

#[kani::proof]
#[kani::unwind(7)]
#[kani::stub(cddl::pest_bridge::create_enhanced_error_message, msg_stub)]
fn c15_convert_error_ascii4() {
  let q: [u8; 2] = kani::any();
  let p = [q[0], q[1], 0, 0];
  let n: usize = kani::any();
  kani::assume(n <= 2);
  let idx: usize = kani::any();
  kani::assume(idx <= n);
  let mut i = 0;
  while i < 4 {
    kani::assume(p[i] < 0x80);
    i += 1;
  }
  let s = unsafe { core::str::from_utf8_unchecked(&p[..n]) };
  let pos = match pest::Position::new(s, idx) {
    Some(p) => p,
    None => {
      assert!(false);
      return;
    }
  };
  let e = pest::error::Error::<cddl::pest_parser::Rule>::new_from_pos(
    pest::error::ErrorVariant::CustomError { message: String::new() },
    pos,
  );
  let out = cddl::pest_bridge::convert_pest_error(e, s);
  match &out {
    cddl::parser::Error::PARSER { position, .. } => {
      assert!(position.range.0 <= position.range.1 && position.range.1 <= n);
      assert!(position.index == position.range.0);
      let mut line = 1usize;
      let mut col = 1usize;
      let mut k = 0;
      while k < 4 {
        if k < position.index {
          if p[k] == b'\n' {
            line += 1;
            col = 1;
          } else {
            col += 1;
          }
        }
        k += 1;
      }
      assert!(position.line == line);
      assert!(position.column == col);
      kani::cover!(position.line == 2);
      kani::cover!(position.index < idx);
    }
    _ => assert!(false),
  }
  core::mem::forget(out);
}

/// The range never splits a UTF-8 scalar: one 2-byte scalar (U+0080..U+07FF) at a
/// symbolic position in an otherwise ASCII input of ≤ 5 bytes; every index on a char
/// boundary. (Found by this harness on the original tree and repaired by the commit
/// "fix: keep parse-error ranges on UTF-8 character boundaries".)
#[kani::proof]
#[kani::unwind(8)]
fn c15_error_range_utf8_boundary() {
  let p: [u8; 5] = kani::any();
  let n: usize = kani::any();
  kani::assume(n >= 2 && n <= 5);
  let k: usize = kani::any();
  kani::assume(k < 4 && k + 1 < n);
  let mut i = 0;
  while i < 5 {
    if i == k {
      kani::assume(p[i] >= 0xc2 && p[i] <= 0xdf);
    } else if i == k + 1 {
      kani::assume(p[i] >= 0x80 && p[i] <= 0xbf);
    } else {
      kani::assume(p[i] < 0x80);
    }
    i += 1;
  }
  let idx: usize = kani::any();
  kani::assume(idx <= n && idx != k + 1);
  let s = unsafe { core::str::from_utf8_unchecked(&p[..n]) };
  let (a, b) = h::compute_error_range(idx, s);
  kani::cover!(a == k);
  assert!(a <= b && b <= n);
  assert!(a != k + 1 && b != k + 1);
}

/// `scan_token_end` / `scan_token_start` stay in bounds and are monotone for any bytes.
#[kani::proof]
#[kani::unwind(8)]
fn c15_scan_bounds6() {
  let p: [u8; 6] = kani::any();
  let n: usize = kani::any();
  kani::assume(n >= 1 && n <= 6);
  let pos: usize = kani::any();
  kani::assume(pos < n);
  let e = h::scan_token_end(&p[..n], pos);
  let st = h::scan_token_start(&p[..n], pos);
  assert!(e >= pos && e <= n);
  assert!(st <= pos);
  kani::cover!(e == n && st == 0 && n == 6);
}

fn span_input(p: &[u8; 4], n: usize, two: bool) {
  let mut i = 0;
  while i < 4 {
    if two && i == 0 {
      kani::assume(p[0] >= 0xc2 && p[0] <= 0xdf);
    } else if two && i == 1 {
      kani::assume(p[1] >= 0x80 && p[1] <= 0xbf);
    } else {
      kani::assume(p[i] < 0x80);
    }
    i += 1;
  }
  kani::assume(!two || n >= 2);
}

fn ref_line_col4(p: &[u8; 4], a: usize) -> (usize, usize) {
  let mut line = 1usize;
  let mut col = 1usize;
  let mut k = 0;
  while k < 4 {
    if k < a {
      if p[k] == b'\n' {
        line += 1;
        col = 1;
      } else if !(p[k] >= 0x80 && p[k] <= 0xbf) {
        col += 1; // count scalar starts, not continuation bytes
      }
    }
    k += 1;
  }
  (line, col)
}

/// Span → Position: line = 1 + number of '\n' before start, column = 1 + characters since
/// the last '\n', index = start, range = (start, end). Input ≤ 4 bytes of ASCII incl.
/// '\n', '\r', optionally one 2-byte scalar first; span ends on char boundaries.
#[kani::proof]
#[kani::unwind(7)]
fn c15_span_to_position4() {
  let p: [u8; 4] = kani::any();
  let n: usize = kani::any();
  kani::assume(n <= 4);
  let two: bool = kani::any();
  span_input(&p, n, two);
  let s = unsafe { core::str::from_utf8_unchecked(&p[..n]) };
  let a: usize = kani::any();
  let b: usize = kani::any();
  kani::assume(a <= b && b <= n);
  kani::assume(!two || (a != 1 && b != 1));
  let (line, col) = ref_line_col4(&p, a);
  match h::span_to_position(a, b, s) {
    Some(pos) => {
      assert!(pos.line == line);
      assert!(pos.column == col);
      assert!(pos.range.0 == a && pos.range.1 == b);
      assert!(pos.index == a);
    }
    None => assert!(false),
  }
  kani::cover!(line == 3 && col == 2);
  kani::cover!(two && col == 3);
}

/// Span → AST span: (start, end, 1-based line of start).
#[kani::proof]
#[kani::unwind(7)]
fn c15_span_to_ast_span4() {
  let p: [u8; 4] = kani::any();
  let n: usize = kani::any();
  kani::assume(n <= 4);
  let two: bool = kani::any();
  span_input(&p, n, two);
  let s = unsafe { core::str::from_utf8_unchecked(&p[..n]) };
  let a: usize = kani::any();
  let b: usize = kani::any();
  kani::assume(a <= b && b <= n);
  kani::assume(!two || (a != 1 && b != 1));
  let (line, _col) = ref_line_col4(&p, a);
  let sp = h::span_to_ast_span(a, b, s);
  assert!(sp == Some((a, b, line)));
  kani::cover!(line == 3);
}

/// AST span → Position with the column recomputed from the text (in characters).
#[kani::proof]
#[kani::unwind(7)]
fn c15_position_from_ast_span3() {
  let q: [u8; 3] = kani::any();
  let p = [q[0], q[1], q[2], 0];
  let n: usize = kani::any();
  kani::assume(n <= 3);
  let two: bool = kani::any();
  span_input(&p, n, two);
  let s = unsafe { core::str::from_utf8_unchecked(&p[..n]) };
  let a: usize = kani::any();
  let b: usize = kani::any();
  kani::assume(a <= b && b <= n);
  kani::assume(!two || (a != 1 && b != 1));
  let (line, col) = ref_line_col4(&p, a);
  let back = h::position_from_ast_span((a, b, line), s);
  assert!(back.line == line && back.column == col && back.index == a);
  assert!(back.range.0 == a && back.range.1 == b);
  kani::cover!(line == 2 && col == 2);
  kani::cover!(two && col == 2);
}
