//! Dependency stub set for harnesses that call validator visitor methods. Kani compiles
//! everything *statically* reachable from a harness; from a visitor callback that includes
//! regex compilation (an internal compiler error in Kani 0.68 on regex_automata), ABNF→pest
//! compilation, URI / base64 / date parsing. None of these is the subject of a harness that
//! uses this set: each is replaced by a function that returns `Err`, so a verdict that
//! *depends* on one of them is outside the claim (and the harnesses never reach them: they
//! use no text documents with controls).

#![allow(dead_code)]

use cddl::ast::{Type, Type2, CDDL};

pub fn regex_new_stub(_re: &str) -> Result<regex::Regex, regex::Error> {
  Err(regex::Error::Syntax(String::new()))
}
pub fn fancy_new_stub(_re: &str) -> fancy_regex::Result<fancy_regex::Regex> {
  Err(fancy_regex::Error::CompileError(Box::new(fancy_regex::CompileError::InvalidBackref(0))))
}
pub fn uri_stub<'u>(_s: &'u str) -> Result<uriparse::URI<'u>, uriparse::URIError>
where
  'u: 'u,
{
  Err(uriparse::URIError::AbsolutePathStartsWithTwoSlashes)
}
pub fn b64url_stub<T: ?Sized + AsRef<[u8]>>(_i: &T) -> Result<Vec<u8>, base64_url::base64::DecodeError> {
  Err(base64_url::base64::DecodeError::InvalidLength(0))
}
pub fn rfc3339_stub(_s: &str) -> chrono::ParseResult<chrono::DateTime<chrono::FixedOffset>> {
  Err(unsafe { core::mem::transmute::<u8, chrono::ParseError>(0) })
}
pub fn cat_stub<'a>(_c: &'a CDDL<'a>, _t: &Type2, _k: &Type2, _d: bool) -> Result<Vec<Type2<'a>>, String> {
  Err(String::new())
}
pub fn plus_stub<'a>(_c: &'a CDDL<'a>, _t: &Type2, _k: &Type2) -> Result<Vec<Type2<'a>>, String> {
  Err(String::new())
}
pub fn abnfc_stub<'a>(_c: &'a CDDL<'a>, _k: &Type) -> Result<Vec<Type2<'a>>, String> {
  Err(String::new())
}
pub fn t3_stub<'a>(_t: &Type2<'a>, _k: &Type2<'a>, _s: &str) -> Result<bool, String> {
  Err(String::new())
}
pub fn t3b_stub<'a>(_t: &Type2<'a>, _k: &Type2<'a>, _s: &str, _b: bool) -> Result<bool, String> {
  Err(String::new())
}
pub fn join_stub<'a>(_t: &Type2<'a>, _k: &Type2<'a>, _s: &str, _c: Option<&'a CDDL<'a>>) -> Result<bool, String> {
  Err(String::new())
}
pub fn abnf_stub(_abnf: &str, _target: &str) -> Result<(), String> {
  Err(String::new())
}

/// Wraps a harness function with the whole stub set (plus `alloc::fmt::format` and
/// `RandomState::new`, see h_c09_occ.rs).
#[macro_export]
macro_rules! with_validator_stubs {
  ($item:item) => {
    #[kani::stub(alloc::fmt::format, $crate::h_c09_occ::fmt_stub)]
    #[kani::stub(std::hash::RandomState::new, $crate::h_c09_occ::rs_stub)]
    #[kani::stub(regex::Regex::new, $crate::stubs::regex_new_stub)]
    #[kani::stub(fancy_regex::Regex::new, $crate::stubs::fancy_new_stub)]
    #[kani::stub(cddl::validator::control::validate_abnf, $crate::stubs::abnf_stub)]
    #[kani::stub(cddl::validator::control::cat_operation, $crate::stubs::cat_stub)]
    #[kani::stub(cddl::validator::control::plus_operation, $crate::stubs::plus_stub)]
    #[kani::stub(cddl::validator::control::abnf_from_complex_controller, $crate::stubs::abnfc_stub)]
    #[kani::stub(cddl::validator::control::validate_b32_text, $crate::stubs::t3b_stub)]
    #[kani::stub(cddl::validator::control::validate_b45_text, $crate::stubs::t3_stub)]
    #[kani::stub(cddl::validator::control::validate_base10_text, $crate::stubs::t3_stub)]
    #[kani::stub(cddl::validator::control::validate_printf_text, $crate::stubs::t3_stub)]
    #[kani::stub(cddl::validator::control::validate_json_text, $crate::stubs::t3_stub)]
    #[kani::stub(cddl::validator::control::validate_join_text, $crate::stubs::join_stub)]
    #[kani::stub(<uriparse::URI as core::convert::TryFrom<&str>>::try_from, $crate::stubs::uri_stub)]
    #[kani::stub(base64_url::decode::decode, $crate::stubs::b64url_stub)]
    #[kani::stub(chrono::DateTime::parse_from_rfc3339, $crate::stubs::rfc3339_stub)]
    $item
  };
}
