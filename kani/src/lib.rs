//! Kani proof harnesses over leaf kernels of anweiss/cddl (DESIGN.md, encoder E1).
//! Built with RUSTFLAGS="--cfg anweiss_cddl_verif" so the crate's guarded
//! `verif_hooks` forwarders to private functions exist.
#![recursion_limit = "1024"]
#![allow(clippy::all)]

pub mod refmodel;

#[cfg(kani)]
#[macro_use]
pub mod stubs;

#[cfg(kani)]
mod h_c03;
#[cfg(kani)]
mod h_c05;
#[cfg(kani)]
mod h_c06;
#[cfg(kani)]
mod h_c07;
#[cfg(kani)]
mod h_c09;
#[cfg(kani)]
pub mod h_c09_occ;
#[cfg(kani)]
mod h_c10;
#[cfg(kani)]
mod h_cb;
#[cfg(kani)]
mod h_range;
#[cfg(kani)]
mod h_c11;
#[cfg(kani)]
mod h_c13;
#[cfg(kani)]
mod h_c15;
