//! Range semantics at visitor-callback level (C09 "inclusive and exclusive ranges differ only
//! at the upper bound", C01/C02 "integer ranges", C04 agreement of the two validators):
//! `<CBORValidator as Visitor>::visit_range` and `<JSONValidator as Visitor>::visit_range`
//! (public trait methods) on a validator built with the public constructor, stack-allocated
//! literal bounds and a symbolic integer document.

use crate::h_c09_occ::{fmt_stub, rs_stub};
use cddl::ast::{Type2, CDDL};
use cddl::validator::cbor::CBORValidator;
use cddl::validator::cbor_value::Value as CV;
use cddl::validator::json::JSONValidator;
use cddl::visitor::Visitor;
use core::convert::TryFrom;

type CErr = cddl::validator::cbor::Error<std::io::Error>;

fn bound(neg: bool, mag: usize) -> Type2<'static> {
  if neg {
    Type2::IntValue { value: -(mag as isize), span: (0, 0, 0) }
  } else {
    Type2::UintValue { value: mag, span: (0, 0, 0) }
  }
}

/// CBOR: integer document v (−2^64 … 2^64−1), integer bounds l ≤ u of either literal kind
/// (negative bounds are IntValue, non-negative ones UintValue, as the parser produces them),
/// inclusive or exclusive: accepted ⇔ l ≤ v ∧ (v ≤ u | v < u).
#[kani::proof]
#[kani::unwind(4)]
#[kani::stub(alloc::fmt::format, fmt_stub)]
#[kani::stub(std::hash::RandomState::new, rs_stub)]
fn c09_range_cbor_int() {
  let cddl = CDDL { rules: vec![], comments: None };
  let v: i128 = kani::any();
  kani::assume(v >= -(1i128 << 64) && v < (1i128 << 64));
  let ln: bool = kani::any();
  let un: bool = kani::any();
  let lm: usize = kani::any();
  let um: usize = kani::any();
  kani::assume(lm <= isize::MAX as usize && um <= isize::MAX as usize);
  let incl: bool = kani::any();
  let l = if ln { -(lm as i128) } else { lm as i128 };
  let u = if un { -(um as i128) } else { um as i128 };
  kani::assume(!(ln && lm == 0) && !(un && um == 0)); // "-0" is not how the parser spells zero
  // both literal kinds are built concretely and selected by reference: a `Type2` value with
  // a symbolic variant would make CBMC explore the drop glue of all 18 variants
  let (lo_i, lo_u) = (bound(true, lm), bound(false, lm));
  let (hi_i, hi_u) = (bound(true, um), bound(false, um));
  let lo = if ln { &lo_i } else { &lo_u };
  let hi = if un { &hi_i } else { &hi_u };
  let mut val = CBORValidator::new(&cddl, CV::Integer(ciborium::value::Integer::try_from(v).unwrap()), None);
  let r = <CBORValidator as Visitor<'_, '_, CErr>>::visit_range(&mut val, lo, hi, incl);
  let errs = cddl::validator::cbor::verif_hooks_occ::error_count(&val);
  let want = l <= v && if incl { v <= u } else { v < u };
  assert!(r.is_ok());
  assert!((errs == 0) == want);
  kani::cover!(want && ln && !un);
  kani::cover!(!want && v == u && !incl);
  kani::cover!(want && v == u && incl);
  core::mem::forget(r);
  core::mem::forget(val);
  core::mem::forget(cddl);
}

/// JSON: integer document v (i64 range), integer bounds, inclusive or exclusive.
/// `mixed` sign kinds of the two bounds (e.g. -5..10) are asked about separately
/// (c09_range_json_mixed).
#[kani::proof]
#[kani::unwind(4)]
#[kani::stub(alloc::fmt::format, fmt_stub)]
#[kani::stub(std::hash::RandomState::new, rs_stub)]
fn c09_range_json_int() {
  let cddl = CDDL { rules: vec![], comments: None };
  let v: i64 = kani::any();
  let neg: bool = kani::any();
  let lm: usize = kani::any();
  let um: usize = kani::any();
  kani::assume(lm <= isize::MAX as usize && um <= isize::MAX as usize);
  kani::assume(!(neg && (lm == 0 || um == 0)));
  let incl: bool = kani::any();
  let l = if neg { -(lm as i128) } else { lm as i128 };
  let u = if neg { -(um as i128) } else { um as i128 };
  let (lo_i, lo_u) = (bound(true, lm), bound(false, lm));
  let (hi_i, hi_u) = (bound(true, um), bound(false, um));
  let lo = if neg { &lo_i } else { &lo_u };
  let hi = if neg { &hi_i } else { &hi_u };
  let mut val = JSONValidator::new(&cddl, serde_json::Value::Number(v.into()), None);
  let r = <JSONValidator as Visitor<'_, '_, cddl::validator::json::Error>>::visit_range(&mut val, lo, hi, incl);
  let errs = cddl::validator::json::verif_hooks_occ::error_count(&val);
  let want = l <= v as i128 && if incl { v as i128 <= u } else { (v as i128) < u };
  assert!(r.is_ok());
  assert!((errs == 0) == want);
  kani::cover!(want && neg);
  kani::cover!(!want && v as i128 == u && !incl);
  core::mem::forget(r);
  core::mem::forget(val);
  core::mem::forget(cddl);
}

/// JSON, bounds of different literal kinds (negative lower, non-negative upper: -5..10).
#[kani::proof]
#[kani::unwind(4)]
#[kani::stub(alloc::fmt::format, fmt_stub)]
#[kani::stub(std::hash::RandomState::new, rs_stub)]
fn c09_range_json_mixed() {
  let cddl = CDDL { rules: vec![], comments: None };
  let v: i64 = kani::any();
  let lm: usize = kani::any();
  let um: usize = kani::any();
  kani::assume(lm >= 1 && lm <= isize::MAX as usize && um <= isize::MAX as usize);
  let incl: bool = kani::any();
  let l = -(lm as i128);
  let u = um as i128;
  let lo = bound(true, lm);
  let hi = bound(false, um);
  let mut val = JSONValidator::new(&cddl, serde_json::Value::Number(v.into()), None);
  let r = <JSONValidator as Visitor<'_, '_, cddl::validator::json::Error>>::visit_range(&mut val, &lo, &hi, incl);
  let errs = cddl::validator::json::verif_hooks_occ::error_count(&val);
  let want = l <= v as i128 && if incl { v as i128 <= u } else { (v as i128) < u };
  kani::cover!(want);
  assert!(r.is_ok());
  assert!((errs == 0) == want);
  core::mem::forget(r);
  core::mem::forget(val);
  core::mem::forget(cddl);
}
