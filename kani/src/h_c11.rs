//! C11 — CBOR decoding implements RFC 8949 well-formedness and values.
//! Layered harnesses (DESIGN.md §5 C11): L0 heads, L1 scalars/dispatch, L2 strings,
//! L3 containers. All readers are `&[u8]` (std::io::Read for slices).

use crate::refmodel::*;
use cddl::validator::cbor_value::{verif_hooks as cv, DecodeError, Value};
use ciborium_ll::{Decoder, Header};

// ------------------------------------------------------------------ L0: heads

/// `Decoder::pull` on every head of 0..=9 bytes: accepted iff RFC 8949 says the head is
/// complete and not reserved; value = big-endian argument.
#[kani::proof]
#[kani::unwind(10)]
fn c11_l0_pull_head() {
  let p: [u8; 9] = kani::any();
  let n: usize = kani::any();
  kani::assume(n <= 9);
  let mut d = Decoder::from(&p[..n]);
  let r = d.pull();
  let want = ref_head(&p[..n]);
  match want {
    Head::Truncated | Head::Reserved => assert!(r.is_err()),
    Head::Indef { major } => match r {
      Ok(Header::Bytes(None)) => assert!(major == 2),
      Ok(Header::Text(None)) => assert!(major == 3),
      Ok(Header::Array(None)) => assert!(major == 4),
      Ok(Header::Map(None)) => assert!(major == 5),
      Ok(Header::Break) => assert!(major == 7),
      _ => assert!(false),
    },
    Head::Ok { major, ai, arg, len } => {
      match r {
        Ok(Header::Positive(v)) => assert!(major == 0 && v == arg),
        Ok(Header::Negative(v)) => assert!(major == 1 && v == arg),
        Ok(Header::Bytes(Some(v))) => assert!(major == 2 && v as u64 == arg),
        Ok(Header::Text(Some(v))) => assert!(major == 3 && v as u64 == arg),
        Ok(Header::Array(Some(v))) => assert!(major == 4 && v as u64 == arg),
        Ok(Header::Map(Some(v))) => assert!(major == 5 && v as u64 == arg),
        Ok(Header::Tag(v)) => assert!(major == 6 && v == arg),
        Ok(Header::Simple(v)) => assert!(major == 7 && ai <= 24 && v as u64 == arg),
        Ok(Header::Float(f)) => {
          assert!(major == 7 && ai >= 25 && ai <= 27);
          let want_bits = match ai {
            25 => half_to_f64_bits(arg as u16),
            26 => single_to_f64_bits(arg as u32),
            _ => arg,
          };
          assert!(same_float_bits(f.to_bits(), want_bits));
        }
        _ => assert!(false),
      }
      assert!(d.offset() == len);
    }
  }
  kani::cover!(matches!(want, Head::Truncated));
  kani::cover!(matches!(want, Head::Reserved));
  kani::cover!(matches!(want, Head::Indef { .. }));
  kani::cover!(matches!(want, Head::Ok { ai: 27, major: 1, .. }));
  kani::cover!(matches!(want, Head::Ok { ai: 25, major: 7, .. }));
  core::mem::forget(r);
}

// ------------------------------------------------------------------ L1: decode_value dispatch + scalars

pub fn rb_stub<R: ciborium_io::Read>(
  _d: &mut Decoder<R>,
  _len: Option<usize>,
) -> Result<Vec<u8>, DecodeError>
where
  ciborium_ll::Error<R::Error>: Into<DecodeError>,
{
  if kani::any() {
    Ok(Vec::new())
  } else {
    Err(DecodeError::Syntax(0))
  }
}
pub fn rt_stub<R: ciborium_io::Read>(
  _d: &mut Decoder<R>,
  _len: Option<usize>,
) -> Result<String, DecodeError>
where
  ciborium_ll::Error<R::Error>: Into<DecodeError>,
{
  if kani::any() {
    Ok(String::new())
  } else {
    Err(DecodeError::Syntax(0))
  }
}
pub fn da_stub<R: ciborium_io::Read>(
  _d: &mut Decoder<R>,
  _len: Option<usize>,
) -> Result<Vec<Value>, DecodeError>
where
  ciborium_ll::Error<R::Error>: Into<DecodeError>,
{
  if kani::any() {
    Ok(Vec::new())
  } else {
    Err(DecodeError::Syntax(0))
  }
}
pub fn dm_stub<R: ciborium_io::Read>(
  _d: &mut Decoder<R>,
  _len: Option<usize>,
) -> Result<Vec<(Value, Value)>, DecodeError>
where
  ciborium_ll::Error<R::Error>: Into<DecodeError>,
{
  if kani::any() {
    Ok(Vec::new())
  } else {
    Err(DecodeError::Syntax(0))
  }
}

/// What the crate's data model maps a simple value to.
fn simple_matches(v: &Value, s: u8) -> bool {
  match s {
    20 => matches!(v, Value::Bool(false)),
    21 => matches!(v, Value::Bool(true)),
    22 | 23 => matches!(v, Value::Null),
    _ => matches!(v, Value::Simple(x) if *x == s),
  }
}

/// `decode_value` on 0..=9 symbolic bytes whose first head is not a tag; string and
/// container callees are stubbed by contract (nondeterministic Ok/Err), so this decides
/// the dispatch and every scalar value: unsigned, negative (−1−n over the whole 64-bit
/// range), simple values, floats by value, reserved/break/truncated ⇒ error, and that
/// strings/containers are routed to the right callee (Ok ⇒ right variant).
/// `known_two_byte_simple`: inputs `f8 xx` with xx < 32 are excluded here and asked
/// about separately (c11_l1_two_byte_simple).
#[kani::proof]
#[kani::unwind(2)]
#[kani::stub(cddl::validator::cbor_value::read_bytes, rb_stub)]
#[kani::stub(cddl::validator::cbor_value::read_text, rt_stub)]
#[kani::stub(cddl::validator::cbor_value::decode_array, da_stub)]
#[kani::stub(cddl::validator::cbor_value::decode_map, dm_stub)]
fn c11_l1_dispatch9() {
  let p: [u8; 9] = kani::any();
  let n: usize = kani::any();
  kani::assume(n <= 9);
  kani::assume(n == 0 || p[0] >> 5 != 6); // tags: c11_l1_tag
  kani::assume(!(n >= 2 && p[0] == 0xf8 && p[1] < 32)); // c11_l1_two_byte_simple
  let mut d = Decoder::from(&p[..n]);
  let r = cv::decode_value(&mut d);
  let want = ref_head(&p[..n]);
  match want {
    Head::Truncated | Head::Reserved => assert!(r.is_err()),
    Head::Indef { major } => match &r {
      Ok(Value::Bytes(_)) => assert!(major == 2),
      Ok(Value::Text(_)) => assert!(major == 3),
      Ok(Value::Array(_)) => assert!(major == 4),
      Ok(Value::Map(_)) => assert!(major == 5),
      Ok(_) => assert!(false),
      Err(_) => {} // break (major 7) must be an error; callee may also fail
    },
    Head::Ok { major, ai, arg, .. } => match major {
      0 => match &r {
        Ok(Value::Integer(x)) => assert!(i128::from(*x) == arg as i128),
        _ => assert!(false),
      },
      1 => match &r {
        Ok(Value::Integer(x)) => assert!(i128::from(*x) == -1 - (arg as i128)),
        _ => assert!(false),
      },
      2 => assert!(matches!(r, Ok(Value::Bytes(_)) | Err(_))),
      3 => assert!(matches!(r, Ok(Value::Text(_)) | Err(_))),
      4 => assert!(matches!(r, Ok(Value::Array(_)) | Err(_))),
      5 => assert!(matches!(r, Ok(Value::Map(_)) | Err(_))),
      _ => match &r {
        Ok(v) => {
          if ai <= 24 {
            assert!(simple_matches(v, arg as u8));
          } else {
            let want_bits = match ai {
              25 => half_to_f64_bits(arg as u16),
              26 => single_to_f64_bits(arg as u32),
              _ => arg,
            };
            match v {
              Value::Float(f) => assert!(same_float_bits(f.to_bits(), want_bits)),
              _ => assert!(false),
            }
          }
        }
        Err(_) => assert!(false),
      },
    },
  }
  if let Head::Indef { major: 7 } = want {
    assert!(r.is_err()); // break outside an indefinite-length item
  }
  kani::cover!(matches!(want, Head::Ok { major: 1, ai: 27, .. }) && r.is_ok());
  kani::cover!(matches!(want, Head::Ok { major: 7, ai: 26, .. }) && r.is_ok());
  kani::cover!(matches!(want, Head::Ok { major: 7, ai: 24, .. }) && r.is_ok());
  kani::cover!(matches!(want, Head::Truncated) && n > 0);
  kani::cover!(matches!(want, Head::Indef { major: 7 }));
  kani::cover!(matches!(want, Head::Ok { major: 4, .. }) && r.is_ok());
  core::mem::forget(r);
}

/// RFC 8949 §3.3: "an encoder MUST NOT issue two-byte sequences that start with 0xf8 and
/// continue with a byte less than 0x20 … such sequences are not well-formed".
#[kani::proof]
#[kani::unwind(2)]
fn c11_l1_two_byte_simple() {
  let x: u8 = kani::any();
  kani::assume(x < 32);
  let p = [0xf8u8, x];
  let mut d = Decoder::from(&p[..]);
  let r = cv::decode_value(&mut d);
  kani::cover!(x == 20);
  assert!(r.is_err());
  core::mem::forget(r);
}

/// Tag head (1..=9 bytes, symbolic) followed by a one-byte scalar item: the tag number is
/// the head argument and the content is the decoded inner item; a tag with nothing after
/// it is an error.
#[kani::proof]
#[kani::unwind(3)]
#[kani::stub(cddl::validator::cbor_value::read_bytes, rb_stub)]
#[kani::stub(cddl::validator::cbor_value::read_text, rt_stub)]
#[kani::stub(cddl::validator::cbor_value::decode_array, da_stub)]
#[kani::stub(cddl::validator::cbor_value::decode_map, dm_stub)]
fn c11_l1_tag() {
  let p: [u8; 10] = kani::any();
  let n: usize = kani::any();
  kani::assume(n <= 10);
  kani::assume(p[0] >> 5 == 6);
  // one level of nesting: the content is not itself a tag (deeper nesting is the same step again)
  if let Head::Ok { len, .. } = ref_head(&p[..n]) {
    if len < n {
      kani::assume(p[len] >> 5 != 6);
    }
  }
  let mut d = Decoder::from(&p[..n]);
  let r = cv::decode_value(&mut d);
  match ref_head(&p[..n]) {
    Head::Ok { arg, len, .. } => {
      // inner item restricted to a one-byte unsigned/negative/simple head for the value check
      if len < n {
        let ib = p[len];
        let im = ib >> 5;
        let iai = ib & 0x1f;
        if iai < 24 && (im == 0 || im == 1) {
          match &r {
            Ok(Value::Tag(t, inner)) => {
              assert!(*t == arg);
              match inner.as_ref() {
                Value::Integer(x) => {
                  let want = if im == 0 { iai as i128 } else { -1 - iai as i128 };
                  assert!(i128::from(*x) == want)
                }
                _ => assert!(false),
              }
            }
            _ => assert!(false),
          }
        }
        if iai >= 28 && iai <= 30 {
          assert!(r.is_err());
        }
        if ib == 0xff {
          assert!(r.is_err());
        }
      } else {
        assert!(r.is_err()); // tag without content
      }
    }
    _ => assert!(r.is_err()),
  }
  kani::cover!(matches!(r, Ok(Value::Tag(_, _))));
  kani::cover!(r.is_err());
  core::mem::forget(r);
}

// ------------------------------------------------------------------ L2: strings

macro_rules! def_bytes_harness {
  ($name:ident, $len:expr, $unw:expr) => {
    /// `read_bytes(Some(LEN))` with LEN payload bytes symbolic and a symbolic number of
    /// available bytes: Ok(payload) iff enough bytes, else Err.
    #[kani::proof]
    #[kani::unwind($unw)]
    fn $name() {
      const L: usize = $len;
      let p: [u8; L + 1] = kani::any();
      let avail: usize = kani::any();
      kani::assume(avail <= L + 1);
      let mut d = Decoder::from(&p[..avail]);
      let r = cv::read_bytes(&mut d, Some(L));
      match &r {
        Ok(v) => {
          assert!(avail >= L);
          assert!(v.len() == L);
          let mut i = 0;
          while i < L {
            assert!(v[i] == p[i]);
            i += 1;
          }
        }
        Err(_) => assert!(avail < L),
      }
      kani::cover!(r.is_ok());
      kani::cover!(r.is_err());
      core::mem::forget(r);
    }
  };
}
def_bytes_harness!(c11_l2_bytes_def1, 1, 4);
def_bytes_harness!(c11_l2_bytes_def2, 2, 5);
def_bytes_harness!(c11_l2_bytes_def4, 4, 7);

macro_rules! def_text_harness {
  ($name:ident, $len:expr, $unw:expr) => {
    /// `read_text(Some(LEN))`: Ok(s) iff enough bytes and the payload is valid UTF-8
    /// (RFC 3629 reference automaton); s has exactly the payload bytes.
    #[kani::proof]
    #[kani::unwind($unw)]
    fn $name() {
      const L: usize = $len;
      let p: [u8; L + 1] = kani::any();
      let avail: usize = kani::any();
      kani::assume(avail <= L + 1);
      let mut d = Decoder::from(&p[..avail]);
      let r = cv::read_text(&mut d, Some(L));
      let valid = avail >= L && ref_utf8(&p[..L]);
      match &r {
        Ok(s) => {
          assert!(valid);
          let b = s.as_bytes();
          assert!(b.len() == L);
          let mut i = 0;
          while i < L {
            assert!(b[i] == p[i]);
            i += 1;
          }
        }
        Err(_) => assert!(!valid),
      }
      kani::cover!(r.is_ok());
      kani::cover!(r.is_err() && avail >= L);
      core::mem::forget(r);
    }
  };
}
def_text_harness!(c11_l2_text_def1, 1, 4);
def_text_harness!(c11_l2_text_def2, 2, 5);
def_text_harness!(c11_l2_text_def3, 3, 6);
def_text_harness!(c11_l2_text_def4, 4, 7);

/// Indefinite-length byte string, fixed frame `[head1 b, head2 b, ff]` given to
/// `read_bytes(None)`: 5 symbolic bytes. Accepts iff every chunk head is a definite
/// byte-string head and the frame is complete; result = concatenation.
/// (thorough tier: accumulate-in-a-loop shape, claimed only if it completes)
#[kani::proof]
#[kani::unwind(4)]
fn c11_l2_bytes_indef() {
  let p: [u8; 5] = kani::any();
  let n: usize = kani::any();
  kani::assume(n <= 5);
  // chunk heads restricted to one-byte heads with length <= 1, or break, or anything else
  kani::assume(p[0] == 0xff || p[0] & 0x1f <= 1 || p[0] & 0x1f == 31);
  let mut d = Decoder::from(&p[..n]);
  let r = cv::read_bytes(&mut d, None);
  // reference: RFC 8949 well-formedness of the same bytes behind a 0x5f head
  let mut full = [0u8; 6];
  full[0] = 0x5f;
  let mut i = 0;
  while i < 5 {
    full[i + 1] = p[i];
    i += 1;
  }
  let want = ref_decode(&full[..n + 1], RefOpts { two_byte_simple_below_32_ok: true }, 3);
  match (&r, &want) {
    (Ok(v), Some((RefValue::Bytes(w), _))) => {
      assert!(v.len() == w.len());
      let mut k = 0;
      while k < v.len() {
        assert!(v[k] == w[k]);
        k += 1;
      }
    }
    (Err(_), None) => {}
    _ => assert!(false),
  }
  kani::cover!(r.is_ok());
  kani::cover!(r.is_err());
  core::mem::forget(r);
  core::mem::forget(want);
}

/// Indefinite-length text string given to `read_text(None)`: frame `[6x a.., 6y b.., ff]`
/// with two chunks of concrete lengths 1 and 1 and symbolic payload bytes: accepted iff
/// *each chunk* is valid UTF-8 on its own (RFC 8949 §3.2.3: chunks of a text string are
/// text strings), result = concatenation.
#[kani::proof]
#[kani::unwind(5)]
fn c11_l2_text_indef_1_1() {
  let a: u8 = kani::any();
  let b: u8 = kani::any();
  let p = [0x61u8, a, 0x61, b, 0xff];
  let mut d = Decoder::from(&p[..]);
  let r = cv::read_text(&mut d, None);
  let valid = a < 0x80 && b < 0x80;
  match &r {
    Ok(s) => {
      assert!(valid);
      let sb = s.as_bytes();
      assert!(sb.len() == 2 && sb[0] == a && sb[1] == b);
    }
    Err(_) => assert!(!valid),
  }
  kani::cover!(r.is_ok());
  kani::cover!(r.is_err() && a >= 0xc2 && a <= 0xdf && b >= 0x80 && b <= 0xbf);
  core::mem::forget(r);
}

/// Indefinite-length string framing: 3 symbolic bytes after the indefinite head, each
/// chunk head restricted to a zero-length definite chunk of either string type, an
/// indefinite chunk head, a break, or a non-string head: accepted iff every head before
/// the first break is a definite chunk of the *same* major type and a break is present.
#[kani::proof]
#[kani::unwind(6)]
fn c11_l2_indef_framing() {
  let p: [u8; 3] = kani::any();
  let n: usize = kani::any();
  kani::assume(n <= 3);
  let text: bool = kani::any();
  let ok_head = |c: u8| c == 0x40 || c == 0x60 || c == 0x5f || c == 0x7f || c == 0xff || c == 0x00 || c == 0x80;
  kani::assume(ok_head(p[0]) && ok_head(p[1]) && ok_head(p[2]));
  let mut d = Decoder::from(&p[..n]);
  let own: u8 = if text { 0x60 } else { 0x40 };
  // reference: scan heads until break
  let mut want_ok = false;
  let mut bad = false;
  let mut i = 0;
  while i < 3 {
    if i < n && !want_ok && !bad {
      if p[i] == 0xff {
        want_ok = true;
      } else if p[i] != own {
        bad = true;
      }
    }
    i += 1;
  }
  let accepted = if text {
    let r = cv::read_text(&mut d, None);
    let ok = matches!(&r, Ok(s) if s.is_empty());
    let is_ok = r.is_ok();
    core::mem::forget(r);
    assert!(ok == is_ok);
    is_ok
  } else {
    let r = cv::read_bytes(&mut d, None);
    let ok = matches!(&r, Ok(v) if v.is_empty());
    let is_ok = r.is_ok();
    core::mem::forget(r);
    assert!(ok == is_ok);
    is_ok
  };
  assert!(accepted == (want_ok && !bad));
  kani::cover!(accepted && n == 3);
  kani::cover!(!accepted && n == 3 && p[2] == 0xff);
}

/// Indefinite-length array given to `decode_array(None)`: frame of 3 symbolic bytes,
/// each a one-byte item (small unsigned, simple value), a tag head 0xc1, a definite
/// array head 0x81, or a break. Accepted iff the bytes up to the first top-level break
/// form complete items: a break in the position of a tag's content or of a definite
/// array's element is an error (RFC 8949 §3.2.1), not the end of the container.
#[kani::proof]
#[kani::unwind(5)]
fn c11_l3_array_indef_nested_break() {
  let p: [u8; 3] = kani::any();
  let okb = |c: u8| c == 0x01 || c == 0xf6 || c == 0xc1 || c == 0x81 || c == 0xff;
  kani::assume(okb(p[0]) && okb(p[1]) && okb(p[2]));
  let mut d = Decoder::from(&p[..]);
  let r = cv::decode_array(&mut d, None);
  let mut full = [0x9fu8, 0, 0, 0];
  full[1] = p[0];
  full[2] = p[1];
  full[3] = p[2];
  let want = ref_decode(&full, RefOpts { two_byte_simple_below_32_ok: true }, 4);
  match (&r, &want) {
    (Ok(items), Some((RefValue::Array(w), _))) => assert!(items.len() == w.len()),
    (Err(_), None) => {}
    _ => assert!(false),
  }
  kani::cover!(r.is_ok());
  kani::cover!(r.is_err() && p[2] == 0xff);
  core::mem::forget(r);
  core::mem::forget(want);
}

// ------------------------------------------------------------------ L3: container framing
//
// The container loops of decode_array / decode_map with `decode_item` replaced by a
// contract stub, which removes the decoder's recursion (the reason the harness above
// never completed). The stub is *deterministic and faithful* to the real decode_item on
// the alphabet the harnesses draw from (one-byte integer and simple-value heads, one-byte
// tag heads whose content is one such item, and the break byte), so a counterexample
// replays natively against the real functions and through `decode_cbor`.

/// Contract of `decode_item` on the frame alphabet: an integer / simple head is a whole
/// item; a tag consumes one more head, which must not be a break; a break is an error.
pub fn di_frame_stub<R: ciborium_io::Read>(
  d: &mut Decoder<R>,
  header: Header,
  _start: usize,
  _head_len: usize,
) -> Result<Value, DecodeError>
where
  ciborium_ll::Error<R::Error>: Into<DecodeError>,
{
  match header {
    Header::Break => Err(DecodeError::UnexpectedBreak),
    Header::Tag(_) => {
      let h = d.pull().map_err(Into::into)?;
      if h == Header::Break {
        Err(DecodeError::UnexpectedBreak)
      } else {
        Ok(Value::Null)
      }
    }
    _ => Ok(Value::Null),
  }
}

#[inline(always)]
fn frame_tag(b: u8) -> bool {
  b >= 0xc0 && b <= 0xd7
}
/// One-byte heads that are whole items, one-byte tags, and the break byte.
#[inline(always)]
fn frame_byte(b: u8) -> bool {
  b < 0x18 || (b >= 0x20 && b < 0x38) || (b >= 0xf4 && b <= 0xf7) || frame_tag(b) || b == 0xff
}
/// Frame alphabet on 4 bytes; a tag is never followed by another tag (the stub models one
/// level of tag content).
fn frame_assume(p: &[u8; 4]) {
  kani::assume(frame_byte(p[0]) && frame_byte(p[1]) && frame_byte(p[2]) && frame_byte(p[3]));
  kani::assume(!(frame_tag(p[0]) && frame_tag(p[1])));
  kani::assume(!(frame_tag(p[1]) && frame_tag(p[2])));
  kani::assume(!(frame_tag(p[2]) && frame_tag(p[3])));
}
/// Reference: one item starting at `i` inside p[..n]; returns the index after it, or
/// None when truncated or when a break stands where an item (or a tag's content) must be.
#[inline(always)]
fn frame_item(p: &[u8; 4], n: usize, i: usize) -> Option<usize> {
  if i >= n || p[i] == 0xff {
    return None;
  }
  if frame_tag(p[i]) {
    if i + 1 >= n || p[i + 1] == 0xff {
      return None;
    }
    return Some(i + 2);
  }
  Some(i + 1)
}

/// `decode_array(None)` on every frame of ≤ 4 bytes over the frame alphabet: Ok exactly
/// when complete items are followed by a break in *element position* (RFC 8949 §3.2.2),
/// with one element per item and the break consumed; a break in the position of a tag's
/// content, or running out of bytes, is an error.
#[kani::proof]
#[kani::unwind(6)]
#[kani::stub(cddl::validator::cbor_value::decode_item, di_frame_stub)]
fn c11_l3_array_indef_frame4() {
  let p: [u8; 4] = kani::any();
  let n: usize = kani::any();
  kani::assume(n <= 4);
  frame_assume(&p);
  let mut d = Decoder::from(&p[..n]);
  let r = cv::decode_array(&mut d, None);
  // reference
  let mut i = 0usize;
  let mut count = 0usize;
  let mut want: Option<(usize, usize)> = None; // (elements, bytes consumed)
  let mut k = 0;
  while k < 5 {
    if i < n && p[i] == 0xff {
      want = Some((count, i + 1));
      break;
    }
    match frame_item(&p, n, i) {
      Some(j) => {
        i = j;
        count += 1;
      }
      None => break,
    }
    k += 1;
  }
  match (&r, want) {
    (Ok(items), Some((c, used))) => assert!(items.len() == c && d.offset() == used),
    (Err(_), None) => {}
    _ => assert!(false),
  }
  kani::cover!(matches!(want, Some((3, 4))));
  kani::cover!(matches!(want, Some((1, 3))) && frame_tag(p[0]));
  kani::cover!(want.is_none() && n == 3 && frame_tag(p[0]) && p[1] == 0xff && p[2] == 0xff);
  kani::cover!(want.is_none() && n == 4 && p[3] != 0xff);
  core::mem::forget(r);
}

#[kani::proof]
#[kani::unwind(4)]
#[kani::stub(cddl::validator::cbor_value::decode_item, di_frame_stub)]
fn c11_l3_array_indef_frame3() {
  let p: [u8; 4] = kani::any();
  let n: usize = kani::any();
  kani::assume(n <= 3);
  frame_assume(&p);
  let mut d = Decoder::from(&p[..n]);
  let r = cv::decode_array(&mut d, None);
  // reference
  let mut i = 0usize;
  let mut count = 0usize;
  let mut want: Option<(usize, usize)> = None; // (elements, bytes consumed)
  let mut k = 0;
  while k < 3 {
    if i < n && p[i] == 0xff {
      want = Some((count, i + 1));
      break;
    }
    match frame_item(&p, n, i) {
      Some(j) => {
        i = j;
        count += 1;
      }
      None => break,
    }
    k += 1;
  }
  match (&r, want) {
    (Ok(items), Some((c, used))) => assert!(items.len() == c && d.offset() == used),
    (Err(_), None) => {}
    _ => assert!(false),
  }
  kani::cover!(matches!(want, Some((2, 3))));
  kani::cover!(matches!(want, Some((1, 3))) && frame_tag(p[0]));
  kani::cover!(want.is_none() && n == 3 && frame_tag(p[0]) && p[1] == 0xff && p[2] == 0xff);
  core::mem::forget(r);
}

/// `decode_map(None)` on every frame of ≤ 4 bytes over the frame alphabet: Ok exactly when
/// complete key/value pairs are followed by a break in *key position*; a break where a
/// value (or a tag's content) must stand is an error, as is an odd number of items.
#[kani::proof]
#[kani::unwind(6)]
#[kani::stub(cddl::validator::cbor_value::decode_item, di_frame_stub)]
fn c11_l3_map_indef_frame4() {
  let p: [u8; 4] = kani::any();
  let n: usize = kani::any();
  kani::assume(n <= 4);
  frame_assume(&p);
  let mut d = Decoder::from(&p[..n]);
  let r = cv::decode_map(&mut d, None);
  let mut i = 0usize;
  let mut count = 0usize;
  let mut want: Option<(usize, usize)> = None;
  let mut k = 0;
  while k < 3 {
    if i < n && p[i] == 0xff {
      want = Some((count, i + 1));
      break;
    }
    let j = match frame_item(&p, n, i) {
      Some(j) => j,
      None => break,
    };
    match frame_item(&p, n, j) {
      Some(j2) => {
        i = j2;
        count += 1;
      }
      None => break,
    }
    k += 1;
  }
  match (&r, want) {
    (Ok(entries), Some((c, used))) => assert!(entries.len() == c && d.offset() == used),
    (Err(_), None) => {}
    _ => assert!(false),
  }
  kani::cover!(matches!(want, Some((1, 3))));
  kani::cover!(matches!(want, Some((0, 1))));
  kani::cover!(want.is_none() && n == 3 && p[1] == 0xff && p[2] == 0xff); // break as a value
  kani::cover!(want.is_none() && n == 4 && p[3] == 0xff && !frame_tag(p[0]) && !frame_tag(p[1]) && !frame_tag(p[2]));
  core::mem::forget(r);
}

/// `decode_array(Some(k))` / `decode_map(Some(k))`, k ∈ 0..=2 symbolic, on ≤ 4 frame bytes:
/// exactly k items (pairs) are consumed, a break anywhere inside is an error, nothing
/// after the last item is read.
#[kani::proof]
#[kani::unwind(6)]
#[kani::stub(cddl::validator::cbor_value::decode_item, di_frame_stub)]
fn c11_l3_array_def_frame4() {
  let p: [u8; 4] = kani::any();
  let n: usize = kani::any();
  kani::assume(n <= 4);
  frame_assume(&p);
  let k: usize = kani::any();
  kani::assume(k <= 2);
  let mut d = Decoder::from(&p[..n]);
  let r = cv::decode_array(&mut d, Some(k));
  let mut i = 0usize;
  let mut ok = true;
  let mut c = 0;
  while c < 2 {
    if c < k && ok {
      match frame_item(&p, n, i) {
        Some(j) => i = j,
        None => ok = false,
      }
    }
    c += 1;
  }
  match &r {
    Ok(items) => assert!(ok && items.len() == k && d.offset() == i),
    Err(_) => assert!(!ok),
  }
  kani::cover!(ok && k == 2 && i == 4);
  kani::cover!(!ok && k == 2 && n == 2 && p[1] == 0xff);
  kani::cover!(ok && k == 0);
  core::mem::forget(r);
}

#[kani::proof]
#[kani::unwind(6)]
#[kani::stub(cddl::validator::cbor_value::decode_item, di_frame_stub)]
fn c11_l3_map_def_frame4() {
  let p: [u8; 4] = kani::any();
  let n: usize = kani::any();
  kani::assume(n <= 4);
  frame_assume(&p);
  let k: usize = kani::any();
  kani::assume(k <= 2);
  let mut d = Decoder::from(&p[..n]);
  let r = cv::decode_map(&mut d, Some(k));
  let mut i = 0usize;
  let mut ok = true;
  let mut c = 0;
  while c < 4 {
    if c < 2 * k && ok {
      match frame_item(&p, n, i) {
        Some(j) => i = j,
        None => ok = false,
      }
    }
    c += 1;
  }
  match &r {
    Ok(entries) => assert!(ok && entries.len() == k && d.offset() == i),
    Err(_) => assert!(!ok),
  }
  kani::cover!(ok && k == 2 && i == 4);
  kani::cover!(ok && k == 1 && i == 3);
  kani::cover!(!ok && k == 1 && n == 2 && p[1] == 0xff);
  core::mem::forget(r);
}
