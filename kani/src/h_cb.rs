//! Visitor-callback level harnesses (C01, C02, C04, C09): one public visitor method of a
//! validator built with the public constructor, called once with stack-allocated literal
//! AST nodes and a symbolic scalar document; verdict = "no validation error was added".
//! Oracle = RFC 8610 semantics of the node. The JSON and the CBOR validator are checked
//! against the *same* oracle, which is how their agreement (C04) is decided within these
//! bounds. Every harness makes exactly one validator call (two or three calls in one harness
//! ran out of 14 GB).

use cddl::ast::{Identifier, CDDL};
use cddl::token::{ControlOperator as Op, Value as Lit};
use cddl::validator::cbor::CBORValidator;
use cddl::validator::cbor_value::Value as CV;
use cddl::validator::json::JSONValidator;
use cddl::visitor::Visitor;
use core::convert::TryFrom;
use serde_json::Value as JV;

type CErr = cddl::validator::cbor::Error<std::io::Error>;
type JErr = cddl::validator::json::Error;

fn id(s: &'static str) -> Identifier<'static> {
  Identifier { ident: s, socket: None, span: (0, 0, 0) }
}

fn cbor_int(n: i128) -> CV {
  CV::Integer(ciborium::value::Integer::try_from(n).unwrap())
}

fn any_cbor_int() -> i128 {
  let n: i128 = kani::any();
  kani::assume(n >= -(1i128 << 64) && n < (1i128 << 64));
  n
}

// ---------------------------------------------------------------- visit_identifier

macro_rules! ident_cbor {
  ($name:ident, $ident:expr, |$d:ident| $doc:block, |$w:ident| $want:expr) => {
    with_validator_stubs! {
    #[kani::proof]
    #[kani::unwind(12)]
    fn $name() {
      let cddl = CDDL { rules: vec![], comments: None };
      let $d = ();
      let (doc, $w) = $doc;
      let mut val = CBORValidator::new(&cddl, doc, None);
      let i = id($ident);
      let r = <CBORValidator as Visitor<'_, '_, CErr>>::visit_identifier(&mut val, &i);
      let ok = r.is_ok() && cddl::validator::cbor::verif_hooks_occ::error_count(&val) == 0;
      let want: bool = $want;
      kani::cover!(ok == want);
      assert!(ok == want);
      core::mem::forget(r);
      core::mem::forget(val);
      core::mem::forget(cddl);
    }
    }
  };
}

macro_rules! ident_json {
  ($name:ident, $ident:expr, |$d:ident| $doc:block, |$w:ident| $want:expr) => {
    with_validator_stubs! {
    #[kani::proof]
    #[kani::unwind(12)]
    fn $name() {
      let cddl = CDDL { rules: vec![], comments: None };
      let $d = ();
      let (doc, $w) = $doc;
      let mut val = JSONValidator::new(&cddl, doc, None);
      let i = id($ident);
      let r = <JSONValidator as Visitor<'_, '_, JErr>>::visit_identifier(&mut val, &i);
      let ok = r.is_ok() && cddl::validator::json::verif_hooks_occ::error_count(&val) == 0;
      let want: bool = $want;
      kani::cover!(ok == want);
      assert!(ok == want);
      core::mem::forget(r);
      core::mem::forget(val);
      core::mem::forget(cddl);
    }
    }
  };
}

// CBOR, integer documents over the whole head range (Appendix D)
ident_cbor!(c00_ident_cbor_uint_int, "uint", |_d| { let n = any_cbor_int(); (cbor_int(n), n) }, |n| n >= 0);
ident_cbor!(c00_ident_cbor_nint_int, "nint", |_d| { let n = any_cbor_int(); (cbor_int(n), n) }, |n| n < 0);
ident_cbor!(c00_ident_cbor_int_int, "int", |_d| { let n = any_cbor_int(); (cbor_int(n), n) }, |n| n == n);
ident_cbor!(c00_ident_cbor_number_int, "number", |_d| { let n = any_cbor_int(); (cbor_int(n), n) }, |n| n == n);
ident_cbor!(c00_ident_cbor_float_int, "float", |_d| { let n = any_cbor_int(); (cbor_int(n), n) }, |n| n != n);
ident_cbor!(c00_ident_cbor_tstr_int, "tstr", |_d| { let n = any_cbor_int(); (cbor_int(n), n) }, |n| n != n);
ident_cbor!(c00_ident_cbor_bool_int, "bool", |_d| { let n = any_cbor_int(); (cbor_int(n), n) }, |n| n != n);
// CBOR, float documents (any bits)
ident_cbor!(c00_ident_cbor_number_float, "number", |_d| { let b: u64 = kani::any(); (CV::Float(f64::from_bits(b)), b) }, |b| b == b);
ident_cbor!(c00_ident_cbor_float_float, "float", |_d| { let b: u64 = kani::any(); (CV::Float(f64::from_bits(b)), b) }, |b| b == b);
ident_cbor!(c00_ident_cbor_int_float, "int", |_d| { let b: u64 = kani::any(); (CV::Float(f64::from_bits(b)), b) }, |b| b != b);
ident_cbor!(c00_ident_cbor_uint_float, "uint", |_d| { let b: u64 = kani::any(); (CV::Float(f64::from_bits(b)), b) }, |b| b != b);
// CBOR, booleans / null
ident_cbor!(c00_ident_cbor_bool_bool, "bool", |_d| { let b: bool = kani::any(); (CV::Bool(b), b) }, |b| b == b);
ident_cbor!(c00_ident_cbor_true_bool, "true", |_d| { let b: bool = kani::any(); (CV::Bool(b), b) }, |b| b);
ident_cbor!(c00_ident_cbor_false_bool, "false", |_d| { let b: bool = kani::any(); (CV::Bool(b), b) }, |b| !b);
ident_cbor!(c00_ident_cbor_int_bool, "int", |_d| { let b: bool = kani::any(); (CV::Bool(b), b) }, |b| b != b);
ident_cbor!(c00_ident_cbor_nil_null, "nil", |_d| { let b: bool = kani::any(); (CV::Null, b) }, |b| b == b);
ident_cbor!(c00_ident_cbor_bool_null, "bool", |_d| { let b: bool = kani::any(); (CV::Null, b) }, |b| b != b);

// JSON, integer documents (i64 range)
ident_json!(c00_ident_json_uint_int, "uint", |_d| { let n: i64 = kani::any(); (JV::Number(n.into()), n) }, |n| n >= 0);
ident_json!(c00_ident_json_nint_int, "nint", |_d| { let n: i64 = kani::any(); (JV::Number(n.into()), n) }, |n| n < 0);
ident_json!(c00_ident_json_int_int, "int", |_d| { let n: i64 = kani::any(); (JV::Number(n.into()), n) }, |n| n == n);
ident_json!(c00_ident_json_number_int, "number", |_d| { let n: i64 = kani::any(); (JV::Number(n.into()), n) }, |n| n == n);
ident_json!(c00_ident_json_tstr_int, "tstr", |_d| { let n: i64 = kani::any(); (JV::Number(n.into()), n) }, |n| n != n);
ident_json!(c00_ident_json_bool_int, "bool", |_d| { let n: i64 = kani::any(); (JV::Number(n.into()), n) }, |n| n != n);
// JSON, integer documents above i64::MAX (u64 range)
ident_json!(c00_ident_json_uint_big, "uint", |_d| { let n: u64 = kani::any(); kani::assume(n > i64::MAX as u64); (JV::Number(n.into()), n) }, |n| n == n);
ident_json!(c00_ident_json_int_big, "int", |_d| { let n: u64 = kani::any(); kani::assume(n > i64::MAX as u64); (JV::Number(n.into()), n) }, |n| n == n);
// JSON, booleans / null
ident_json!(c00_ident_json_bool_bool, "bool", |_d| { let b: bool = kani::any(); (JV::Bool(b), b) }, |b| b == b);
ident_json!(c00_ident_json_true_bool, "true", |_d| { let b: bool = kani::any(); (JV::Bool(b), b) }, |b| b);
ident_json!(c00_ident_json_false_bool, "false", |_d| { let b: bool = kani::any(); (JV::Bool(b), b) }, |b| !b);
ident_json!(c00_ident_json_nil_null, "nil", |_d| { let b: bool = kani::any(); (JV::Null, b) }, |b| b == b);
ident_json!(c00_ident_json_int_null, "int", |_d| { let b: bool = kani::any(); (JV::Null, b) }, |b| b != b);

// ---------------------------------------------------------------- visit_value (literals, comparison controls)

/// Comparison by control operator, as RFC 8610 §3.8 defines it. `ctl` 0 = plain literal
/// (equality), 1 = .ne, 2 = .lt, 3 = .le, 4 = .gt, 5 = .ge.
fn cmp(ctl: u8, v: i128, c: i128) -> bool {
  match ctl {
    0 => v == c,
    1 => v != c,
    2 => v < c,
    3 => v <= c,
    4 => v > c,
    _ => v >= c,
  }
}

fn op_of(ctl: u8) -> Option<Op> {
  match ctl {
    0 => None,
    1 => Some(Op::NE),
    2 => Some(Op::LT),
    3 => Some(Op::LE),
    4 => Some(Op::GT),
    _ => Some(Op::GE),
  }
}

macro_rules! value_cbor {
  ($name:ident, $ctl:expr) => {
    with_validator_stubs! {
    /// CBOR `visit_value` with the control state an enclosing `.ne/.lt/.le/.gt/.ge` (or none)
    /// sets: integer document over the whole head range, integer literal of either kind.
    #[kani::proof]
    #[kani::unwind(4)]
    fn $name() {
      let cddl = CDDL { rules: vec![], comments: None };
      let v = any_cbor_int();
      let neg: bool = kani::any();
      let m: usize = kani::any();
      kani::assume(m <= isize::MAX as usize && !(neg && m == 0));
      let c = if neg { -(m as i128) } else { m as i128 };
      let li = Lit::INT(-(m as isize));
      let lu = Lit::UINT(m);
      let lit = if neg { &li } else { &lu };
      let mut val = CBORValidator::new(&cddl, cbor_int(v), None);
      cddl::validator::cbor::verif_hooks_state::set_ctrl(&mut val, op_of($ctl));
      let r = <CBORValidator as Visitor<'_, '_, CErr>>::visit_value(&mut val, lit);
      let errs = cddl::validator::cbor::verif_hooks_occ::error_count(&val);
      assert!(r.is_ok());
      assert!((errs == 0) == cmp($ctl, v, c));
      kani::cover!(errs == 0 && neg);
      kani::cover!(errs > 0 && !neg);
      core::mem::forget(r);
      core::mem::forget(val);
      core::mem::forget(cddl);
    }
    }
  };
}
value_cbor!(c00_value_cbor_eq, 0);
value_cbor!(c00_value_cbor_ne, 1);
value_cbor!(c00_value_cbor_lt, 2);
value_cbor!(c00_value_cbor_le, 3);
value_cbor!(c00_value_cbor_gt, 4);
value_cbor!(c00_value_cbor_ge, 5);

macro_rules! value_json {
  ($name:ident, $ctl:expr, $same_sign_only:expr) => {
    with_validator_stubs! {
    /// JSON `visit_value`: integer document (i64 range), integer literal of either kind.
    /// With `same_sign_only` the case "negative document against a non-negative (UINT)
    /// literal" is excluded here and asked about separately (c00_value_json_neg_vs_uint).
    #[kani::proof]
    #[kani::unwind(4)]
    fn $name() {
      let cddl = CDDL { rules: vec![], comments: None };
      let v: i64 = kani::any();
      let neg: bool = kani::any();
      let m: usize = kani::any();
      kani::assume(m <= isize::MAX as usize && !(neg && m == 0));
      if $same_sign_only {
        kani::assume(neg || v >= 0);
      }
      let c = if neg { -(m as i128) } else { m as i128 };
      let li = Lit::INT(-(m as isize));
      let lu = Lit::UINT(m);
      let lit = if neg { &li } else { &lu };
      let mut val = JSONValidator::new(&cddl, JV::Number(v.into()), None);
      cddl::validator::json::verif_hooks_state::set_ctrl(&mut val, op_of($ctl));
      let r = <JSONValidator as Visitor<'_, '_, JErr>>::visit_value(&mut val, lit);
      let errs = cddl::validator::json::verif_hooks_occ::error_count(&val);
      assert!(r.is_ok());
      assert!((errs == 0) == cmp($ctl, v as i128, c));
      kani::cover!(errs == 0 && neg);
      kani::cover!(errs > 0 && !neg);
      core::mem::forget(r);
      core::mem::forget(val);
      core::mem::forget(cddl);
    }
    }
  };
}
value_json!(c00_value_json_eq, 0, false);
value_json!(c00_value_json_ne, 1, true);
value_json!(c00_value_json_lt, 2, true);
value_json!(c00_value_json_le, 3, true);
value_json!(c00_value_json_gt, 4, false);
value_json!(c00_value_json_ge, 5, false);

with_validator_stubs! {
/// JSON: a negative document against a non-negative literal under `.ne` / `.lt` / `.le`
/// (which it satisfies). Isolates a listed finding (a repair was written and withdrawn, see
/// known_findings.json).
#[kani::proof]
#[kani::unwind(4)]
fn c00_value_json_neg_vs_uint() {
  let cddl = CDDL { rules: vec![], comments: None };
  let v: i64 = kani::any();
  kani::assume(v < 0);
  let m: usize = kani::any();
  kani::assume(m <= isize::MAX as usize);
  let ctl: u8 = kani::any();
  kani::assume(ctl >= 1 && ctl <= 3);
  let lit = Lit::UINT(m);
  let mut val = JSONValidator::new(&cddl, JV::Number(v.into()), None);
  cddl::validator::json::verif_hooks_state::set_ctrl(&mut val, op_of(ctl));
  let r = <JSONValidator as Visitor<'_, '_, JErr>>::visit_value(&mut val, &lit);
  let errs = cddl::validator::json::verif_hooks_occ::error_count(&val);
  kani::cover!(ctl == 2);
  assert!(r.is_ok());
  assert!(errs == 0); // v < 0 <= m: .ne, .lt and .le all hold
  core::mem::forget(r);
  core::mem::forget(val);
  core::mem::forget(cddl);
}
}

// ---------------------------------------------------------------- second batch: text / bytes / any, floats, .size

// CBOR, text and byte-string documents (one symbolic ASCII byte / one symbolic byte)
ident_cbor!(c00_ident_cbor_tstr_text, "tstr", |_d| { let c: u8 = kani::any(); kani::assume(c < 0x80); let mut s = String::new(); s.push(c as char); (CV::Text(s), c) }, |c| c == c);
ident_cbor!(c00_ident_cbor_text_text, "text", |_d| { let c: u8 = kani::any(); kani::assume(c < 0x80); let mut s = String::new(); s.push(c as char); (CV::Text(s), c) }, |c| c == c);
ident_cbor!(c00_ident_cbor_bstr_text, "bstr", |_d| { let c: u8 = kani::any(); kani::assume(c < 0x80); let mut s = String::new(); s.push(c as char); (CV::Text(s), c) }, |c| c != c);
ident_cbor!(c00_ident_cbor_int_text, "int", |_d| { let c: u8 = kani::any(); kani::assume(c < 0x80); let mut s = String::new(); s.push(c as char); (CV::Text(s), c) }, |c| c != c);
ident_cbor!(c00_ident_cbor_bstr_bytes, "bstr", |_d| { let c: u8 = kani::any(); let mut v = Vec::new(); v.push(c); (CV::Bytes(v), c) }, |c| c == c);
ident_cbor!(c00_ident_cbor_bytes_bytes, "bytes", |_d| { let c: u8 = kani::any(); let mut v = Vec::new(); v.push(c); (CV::Bytes(v), c) }, |c| c == c);
ident_cbor!(c00_ident_cbor_tstr_bytes, "tstr", |_d| { let c: u8 = kani::any(); let mut v = Vec::new(); v.push(c); (CV::Bytes(v), c) }, |c| c != c);
ident_cbor!(c00_ident_cbor_any_int, "any", |_d| { let n = any_cbor_int(); (cbor_int(n), n) }, |n| n == n);
ident_cbor!(c00_ident_cbor_any_null, "any", |_d| { let b: bool = kani::any(); (CV::Null, b) }, |b| b == b);
// JSON, strings
ident_json!(c00_ident_json_tstr_text, "tstr", |_d| { let c: u8 = kani::any(); kani::assume(c < 0x80); let mut s = String::new(); s.push(c as char); (JV::String(s), c) }, |c| c == c);
ident_json!(c00_ident_json_text_text, "text", |_d| { let c: u8 = kani::any(); kani::assume(c < 0x80); let mut s = String::new(); s.push(c as char); (JV::String(s), c) }, |c| c == c);
ident_json!(c00_ident_json_int_text, "int", |_d| { let c: u8 = kani::any(); kani::assume(c < 0x80); let mut s = String::new(); s.push(c as char); (JV::String(s), c) }, |c| c != c);
ident_json!(c00_ident_json_any_int, "any", |_d| { let n: i64 = kani::any(); (JV::Number(n.into()), n) }, |n| n == n);

with_validator_stubs! {
/// CBOR `uint .size c` at visit_value level: accepted ⇔ v < 256^c, for every non-negative
/// integer document and c ≤ 15 (c ≥ 16 is asked about in c00_value_cbor_size_ge16).
#[kani::proof]
#[kani::unwind(20)]
fn c00_value_cbor_size() {
  let cddl = CDDL { rules: vec![], comments: None };
  let v = any_cbor_int();
  kani::assume(v >= 0);
  let c: usize = kani::any();
  kani::assume(c <= 15);
  let lit = Lit::UINT(c);
  let mut val = CBORValidator::new(&cddl, cbor_int(v), None);
  cddl::validator::cbor::verif_hooks_state::set_ctrl(&mut val, Some(Op::SIZE));
  let r = <CBORValidator as Visitor<'_, '_, CErr>>::visit_value(&mut val, &lit);
  let errs = cddl::validator::cbor::verif_hooks_occ::error_count(&val);
  let fits = (v >> (8 * c as u32)) == 0;
  assert!(r.is_ok());
  assert!((errs == 0) == fits);
  kani::cover!(errs == 0 && c == 1);
  kani::cover!(errs > 0 && c == 4);
  core::mem::forget(r);
  core::mem::forget(val);
  core::mem::forget(cddl);
}
}

with_validator_stubs! {
/// JSON `uint .size c` at visit_value level: accepted ⇔ v < 256^c (u64 documents, c ≤ 15).
#[kani::proof]
#[kani::unwind(20)]
fn c00_value_json_size() {
  let cddl = CDDL { rules: vec![], comments: None };
  let v: u64 = kani::any();
  let c: usize = kani::any();
  kani::assume(c <= 15);
  let lit = Lit::UINT(c);
  let mut val = JSONValidator::new(&cddl, JV::Number(v.into()), None);
  cddl::validator::json::verif_hooks_state::set_ctrl(&mut val, Some(Op::SIZE));
  let r = <JSONValidator as Visitor<'_, '_, JErr>>::visit_value(&mut val, &lit);
  let errs = cddl::validator::json::verif_hooks_occ::error_count(&val);
  let fits = c >= 8 || (v >> (8 * c as u32)) == 0;
  assert!(r.is_ok());
  assert!((errs == 0) == fits);
  kani::cover!(errs == 0 && c == 1);
  kani::cover!(errs > 0 && c == 4);
  core::mem::forget(r);
  core::mem::forget(val);
  core::mem::forget(cddl);
}
}

macro_rules! value_json_u64 {
  ($name:ident, $ctl:expr) => {
    with_validator_stubs! {
    /// JSON `visit_value`: non-negative integer document over the whole u64 range (serde_json
    /// keeps integers above i64::MAX as u64) against a non-negative literal over the whole
    /// usize range.
    #[kani::proof]
    #[kani::unwind(4)]
    fn $name() {
      let cddl = CDDL { rules: vec![], comments: None };
      let v: u64 = kani::any();
      let m: usize = kani::any();
      let lit = Lit::UINT(m);
      let mut val = JSONValidator::new(&cddl, JV::Number(v.into()), None);
      cddl::validator::json::verif_hooks_state::set_ctrl(&mut val, op_of($ctl));
      let r = <JSONValidator as Visitor<'_, '_, JErr>>::visit_value(&mut val, &lit);
      let errs = cddl::validator::json::verif_hooks_occ::error_count(&val);
      assert!(r.is_ok());
      assert!((errs == 0) == cmp($ctl, v as i128, m as i128));
      kani::cover!(errs == 0 && v > i64::MAX as u64);
      kani::cover!(errs > 0 && m > isize::MAX as usize);
      core::mem::forget(r);
      core::mem::forget(val);
      core::mem::forget(cddl);
    }
    }
  };
}
value_json_u64!(c00_value_json_u64_eq, 0);
value_json_u64!(c00_value_json_u64_ne, 1);
value_json_u64!(c00_value_json_u64_lt, 2);
value_json_u64!(c00_value_json_u64_gt, 4);

with_validator_stubs! {
/// `uint .size c` with 16 ≤ c ≤ 20: every 64-bit unsigned integer fits in 16 or more bytes.
/// Found a defect on the original tree (256^16 overflowed the 128-bit power and the control
/// rejected everything; repaired).
#[kani::proof]
#[kani::unwind(24)]
fn c00_value_json_size_ge16() {
  let cddl = CDDL { rules: vec![], comments: None };
  let v: u64 = kani::any();
  let c: usize = kani::any();
  kani::assume(c >= 16 && c <= 20);
  let lit = Lit::UINT(c);
  let mut val = JSONValidator::new(&cddl, JV::Number(v.into()), None);
  cddl::validator::json::verif_hooks_state::set_ctrl(&mut val, Some(Op::SIZE));
  let r = <JSONValidator as Visitor<'_, '_, JErr>>::visit_value(&mut val, &lit);
  let errs = cddl::validator::json::verif_hooks_occ::error_count(&val);
  kani::cover!(c == 17);
  assert!(r.is_ok());
  assert!(errs == 0);
  core::mem::forget(r);
  core::mem::forget(val);
  core::mem::forget(cddl);
}
}

// ---------------------------------------------------------------- third batch (experiments): visit_type2 / visit_type

with_validator_stubs! {
/// CBOR `visit_type2` on a literal node: `Type2::UintValue` / `Type2::IntValue` reach the same
/// verdict as the literal itself (one level of composition: type2 → value).
#[kani::proof]
#[kani::unwind(4)]
fn c00_type2_cbor_literal() {
  use cddl::ast::Type2;
  let cddl = CDDL { rules: vec![], comments: None };
  let v = any_cbor_int();
  let neg: bool = kani::any();
  let m: usize = kani::any();
  kani::assume(m <= isize::MAX as usize && !(neg && m == 0));
  let c = if neg { -(m as i128) } else { m as i128 };
  let ti = Type2::IntValue { value: -(m as isize), span: (0, 0, 0) };
  let tu = Type2::UintValue { value: m, span: (0, 0, 0) };
  let t2 = if neg { &ti } else { &tu };
  let mut val = CBORValidator::new(&cddl, cbor_int(v), None);
  let r = <CBORValidator as Visitor<'_, '_, CErr>>::visit_type2(&mut val, t2);
  let errs = cddl::validator::cbor::verif_hooks_occ::error_count(&val);
  assert!(r.is_ok());
  assert!((errs == 0) == (v == c));
  kani::cover!(errs == 0 && neg);
  kani::cover!(errs > 0);
  core::mem::forget(r);
  core::mem::forget(val);
  core::mem::forget(cddl);
}
}

with_validator_stubs! {
/// JSON `visit_value` with `.size N` on a one-character string document (ASCII or a 2-byte
/// scalar): the size of a text string is its length in *bytes* (RFC 8610 §3.8.1).
#[kani::proof]
#[kani::unwind(6)]
fn c00_value_json_text_size() {
  let cddl = CDDL { rules: vec![], comments: None };
  let two: bool = kani::any();
  let a: u8 = kani::any();
  let n: usize = kani::any();
  kani::assume(n <= 3);
  let mut s = String::new();
  if two {
    kani::assume(a >= 0xa0 && a <= 0xbf);
    s.push(char::from_u32(0x80 + (a as u32 - 0x80)).unwrap()); // U+00A0..U+00BF: two UTF-8 bytes
  } else {
    kani::assume(a >= 0x20 && a < 0x7f);
    s.push(a as char);
  }
  let bytes = if two { 2usize } else { 1 };
  let lit = Lit::UINT(n);
  let mut val = JSONValidator::new(&cddl, JV::String(s), None);
  cddl::validator::json::verif_hooks_state::set_ctrl(&mut val, Some(Op::SIZE));
  let r = <JSONValidator as Visitor<'_, '_, JErr>>::visit_value(&mut val, &lit);
  let errs = cddl::validator::json::verif_hooks_occ::error_count(&val);
  assert!(r.is_ok());
  kani::cover!(errs == 0 && two);
  kani::cover!(errs > 0 && !two);
  // `tstr .size N` with an unsigned N: exactly N bytes (RFC 8610 §3.8.1, `ip4 = bstr .size 4`)
  assert!((errs == 0) == (bytes == n));
  core::mem::forget(r);
  core::mem::forget(val);
  core::mem::forget(cddl);
}
}

with_validator_stubs! {
/// JSON: a document above i64::MAX against a *negative* literal under every comparison:
/// it is greater than and different from the literal. Isolates the mirror image of the same
/// listed finding (as_i64 is None for such a document).
#[kani::proof]
#[kani::unwind(4)]
fn c00_value_json_big_vs_int() {
  let cddl = CDDL { rules: vec![], comments: None };
  let v: u64 = kani::any();
  kani::assume(v > i64::MAX as u64);
  let m: usize = kani::any();
  kani::assume(m >= 1 && m <= isize::MAX as usize);
  let ctl: u8 = kani::any();
  kani::assume(ctl <= 5);
  let lit = Lit::INT(-(m as isize));
  let mut val = JSONValidator::new(&cddl, JV::Number(v.into()), None);
  cddl::validator::json::verif_hooks_state::set_ctrl(&mut val, op_of(ctl));
  let r = <JSONValidator as Visitor<'_, '_, JErr>>::visit_value(&mut val, &lit);
  let errs = cddl::validator::json::verif_hooks_occ::error_count(&val);
  assert!(r.is_ok());
  assert!((errs == 0) == cmp(ctl, v as i128, -(m as i128)));
  kani::cover!(errs == 0 && ctl == 4);
  kani::cover!(errs > 0 && ctl == 2);
  core::mem::forget(r);
  core::mem::forget(val);
  core::mem::forget(cddl);
}
}

// ---------------------------------------------------------------- .bits on byte strings: totality (C05)

macro_rules! bits_bytes_total {
  ($name:ident, |$d:ident| $doc:block, $len:expr) => {
    with_validator_stubs! {
    /// CBOR `bstr .bits N` at visit_value level on a byte string of fixed length and *every*
    /// N: usize: the callback returns without panicking (index arithmetic N/8, N%8, shifts),
    /// and a bit number at or beyond the end of the string is never accepted. Whether the
    /// crate's reading of `.bits` ("bit N is set") is the RFC's ("only listed bits may be
    /// set") is **not** asserted here.
    #[kani::proof]
    #[kani::unwind(12)]
    fn $name() {
      let cddl = CDDL { rules: vec![], comments: None };
      let $d = ();
      let doc: Vec<u8> = $doc;
      let n: usize = kani::any();
      let lit = Lit::UINT(n);
      let mut val = CBORValidator::new(&cddl, CV::Bytes(doc), None);
      cddl::validator::cbor::verif_hooks_state::set_ctrl(&mut val, Some(Op::BITS));
      let r = <CBORValidator as Visitor<'_, '_, CErr>>::visit_value(&mut val, &lit);
      let errs = cddl::validator::cbor::verif_hooks_occ::error_count(&val);
      assert!(r.is_ok());
      if n / 8 >= $len {
        assert!(errs > 0);
      }
      kani::cover!(n / 8 == $len);
      kani::cover!(n > u32::MAX as usize);
      core::mem::forget(r);
      core::mem::forget(val);
      core::mem::forget(cddl);
    }
    }
  };
}
bits_bytes_total!(c05_cbor_bits_bytes0_total, |_d| { Vec::new() }, 0usize);
bits_bytes_total!(c05_cbor_bits_bytes1_total, |_d| { let c: u8 = kani::any(); let mut v = Vec::new(); v.push(c); v }, 1usize);
