//! C06 — formatting preserves meaning: literal rendering composed with the real literal
//! decoders (the inverse the re-parse applies).
//! Units: <token::Value as Display>::fmt, <ByteValue as Display>::fmt; hex_decode,
//! base64_decode, parse_int_lit, parse_uint_lit (hooks).

use cddl::pest_bridge::verif_hooks as h;
use cddl::token::{ByteValue, Value};
use std::borrow::Cow;

/// Reference recogniser of the crate's `text_value` token (cddl.pest): `"` text_char* `"`,
/// text_char = escape | any char except `"` and `\`. Returns true iff `out` is exactly one
/// such token whose content, unescaped per RFC 8610/9682, equals `t`. Only the escapes
/// that can denote a single ASCII byte are needed here (`\"`, `\\`, `\/`, `\b`, `\f`,
/// `\n`, `\r`, `\t`); a `\u` escape never equals the raw ASCII text it would have to
/// replace *and* appear verbatim, so it is treated as "not equal".
fn text_token_denotes(out: &[u8], t: &[u8]) -> bool {
  let n = out.len();
  if n < 2 || out[0] != b'"' || out[n - 1] != b'"' {
    return false;
  }
  let mut i = 1;
  let mut k = 0;
  while i < n - 1 {
    let c = out[i];
    if c == b'"' {
      return false; // token ends early: trailing garbage
    }
    let v = if c == b'\\' {
      if i + 1 >= n - 1 {
        return false;
      }
      i += 1;
      match out[i] {
        b'"' => b'"',
        b'\\' => b'\\',
        b'/' => b'/',
        b'b' => 8,
        b'f' => 12,
        b'n' => b'\n',
        b'r' => b'\r',
        b't' => b'\t',
        _ => return false,
      }
    } else {
      c
    };
    if k >= t.len() || t[k] != v {
      return false;
    }
    k += 1;
    i += 1;
  }
  k == t.len()
}

/// Text of 0..=2 symbolic printable ASCII bytes without `"` and `\`: rendered as one
/// text token denoting the same text.
#[kani::proof]
#[kani::unwind(8)]
fn c06_text_render_plain2() {
  let p: [u8; 2] = kani::any();
  let n: usize = kani::any();
  kani::assume(n <= 2);
  kani::assume(p[0] >= 0x20 && p[0] < 0x7f && p[1] >= 0x20 && p[1] < 0x7f);
  kani::assume(p[0] != b'"' && p[0] != b'\\' && p[1] != b'"' && p[1] != b'\\');
  let t = unsafe { core::str::from_utf8_unchecked(&p[..n]) };
  let out = Value::TEXT(Cow::Borrowed(t)).to_string();
  assert!(text_token_denotes(out.as_bytes(), &p[..n]));
  kani::cover!(n == 2);
  core::mem::forget(out);
}

/// Text containing `"` or `\` (1..=2 bytes, at least one of them special): the rendered
/// token must still denote the same text. (Isolates the known finding: `Value::TEXT` is
/// printed without re-escaping.)
#[kani::proof]
#[kani::unwind(8)]
fn c06_text_render_special2() {
  let p: [u8; 2] = kani::any();
  let n: usize = kani::any();
  kani::assume(n >= 1 && n <= 2);
  kani::assume(p[0] >= 0x20 && p[0] < 0x7f && p[1] >= 0x20 && p[1] < 0x7f);
  let special = |c: u8| c == b'"' || c == b'\\';
  kani::assume(special(p[0]) || (n == 2 && special(p[1])));
  let t = unsafe { core::str::from_utf8_unchecked(&p[..n]) };
  let out = Value::TEXT(Cow::Borrowed(t)).to_string();
  let ok = text_token_denotes(out.as_bytes(), &p[..n]);
  kani::cover!(true);
  assert!(ok);
  core::mem::forget(out);
}

/// h'…' rendering of 0..=2 symbolic bytes decodes back to the same bytes.
#[kani::proof]
#[kani::unwind(8)]
fn c06_b16_roundtrip2() {
  let p: [u8; 2] = kani::any();
  let n: usize = kani::any();
  kani::assume(n <= 2);
  let out = ByteValue::B16(Cow::Borrowed(&p[..n])).to_string();
  let ob = out.as_bytes();
  assert!(ob.len() == 3 + 2 * n);
  assert!(ob[0] == b'h' && ob[1] == b'\'' && ob[ob.len() - 1] == b'\'');
  let back = h::hex_decode(&ob[2..ob.len() - 1]);
  match &back {
    Ok(v) => {
      assert!(v.len() == n);
      if n >= 1 {
        assert!(v[0] == p[0]);
      }
      if n >= 2 {
        assert!(v[1] == p[1]);
      }
    }
    Err(_) => assert!(false),
  }
  kani::cover!(n == 2);
  core::mem::forget(out);
  core::mem::forget(back);
}

/// b64'…' rendering of 1 symbolic byte decodes back to the same byte.
#[kani::proof]
#[kani::unwind(8)]
fn c06_b64_roundtrip1() {
  let p: [u8; 1] = kani::any();
  let out = ByteValue::B64(Cow::Borrowed(&p[..])).to_string();
  let ob = out.as_bytes();
  assert!(ob.len() == 5 + 2);
  assert!(ob[0] == b'b' && ob[1] == b'6' && ob[2] == b'4' && ob[3] == b'\'' && ob[6] == b'\'');
  let back = h::base64_decode(&ob[4..6]);
  match &back {
    Ok(v) => assert!(v.len() == 1 && v[0] == p[0]),
    Err(_) => assert!(false),
  }
  kani::cover!(true);
  core::mem::forget(out);
  core::mem::forget(back);
}

/// Occurrence indicators render as the RFC spelling `[lower] "*" [upper]` / `+` / `?` and
/// the bounds decode back through the real uint decoder: lower before the star, upper
/// after it (bounds < 100, each optional).
#[kani::proof]
#[kani::unwind(10)]
fn c06_occur_render() {
  use cddl::ast::Occur;
  let lo: usize = kani::any();
  let hi: usize = kani::any();
  kani::assume(lo < 100 && hi < 100);
  let has_lo: bool = kani::any();
  let has_hi: bool = kani::any();
  let o = Occur::Exact {
    lower: if has_lo { Some(lo) } else { None },
    upper: if has_hi { Some(hi) } else { None },
    span: (0, 0, 0),
  };
  let out = o.to_string();
  let b = out.as_bytes();
  // locate the single '*'
  let mut star = usize::MAX;
  let mut i = 0;
  while i < 8 {
    if i < b.len() && b[i] == b'*' {
      assert!(star == usize::MAX);
      star = i;
    }
    i += 1;
  }
  assert!(star != usize::MAX);
  let left = unsafe { core::str::from_utf8_unchecked(&b[..star]) };
  let right = unsafe { core::str::from_utf8_unchecked(&b[star + 1..]) };
  if has_lo {
    assert!(h::parse_uint_lit(left) == Some(lo));
  } else {
    assert!(left.is_empty());
  }
  if has_hi {
    assert!(h::parse_uint_lit(right) == Some(hi));
  } else {
    assert!(right.is_empty());
  }
  kani::cover!(has_lo && has_hi && lo == 12 && hi == 99);
  kani::cover!(!has_lo && has_hi);
  core::mem::forget(out);
}

/// h'…' rendering of exactly one symbolic byte decodes back to it.
#[kani::proof]
#[kani::unwind(6)]
fn c06_b16_roundtrip1() {
  let p: [u8; 1] = kani::any();
  let out = ByteValue::B16(Cow::Borrowed(&p[..])).to_string();
  let ob = out.as_bytes();
  assert!(ob.len() == 5);
  assert!(ob[0] == b'h' && ob[1] == b'\'' && ob[4] == b'\'');
  let back = h::hex_decode(&ob[2..4]);
  match &back {
    Ok(v) => assert!(v.len() == 1 && v[0] == p[0]),
    Err(_) => assert!(false),
  }
  kani::cover!(p[0] == 0xa5);
  core::mem::forget(out);
  core::mem::forget(back);
}

/// One- and two-digit unsigned integers render to a spelling that decodes to the same value.
#[kani::proof]
#[kani::unwind(8)]
fn c06_uint_roundtrip2() {
  let u: usize = kani::any();
  kani::assume(u < 100);
  let out = Value::UINT(u).to_string();
  assert!(h::parse_uint_lit(&out) == Some(u));
  kani::cover!(u == 42);
  core::mem::forget(out);
}
