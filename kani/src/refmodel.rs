//! Reference models (oracles) shared by the Kani harnesses and the native replay
//! binary. Each function is a short transcription of an RFC rule; none of them calls
//! into the crate under verification.
//!
//! Sources: RFC 8949 §3 + Appendix C/D (CBOR heads, half-precision decode),
//! RFC 3629 (UTF-8), RFC 8610 Appendix B/D (literals, prelude), RFC 4648 (base16/base64).

#![allow(dead_code)]

// ---------------------------------------------------------------- RFC 8949 heads

/// Outcome of reading one CBOR head from `b` (RFC 8949 §3, Appendix C `well_formed`).
#[derive(Clone, Copy, PartialEq, Eq, Debug)]
pub enum Head {
  /// major type, additional information, argument value, number of head bytes
  Ok { major: u8, ai: u8, arg: u64, len: usize },
  /// indefinite-length marker for majors 2..5, or break for major 7
  Indef { major: u8 },
  /// additional information 28..30, or 31 on majors 0, 1, 6
  Reserved,
  /// fewer bytes than the head needs
  Truncated,
}

pub fn arg_len(ai: u8) -> usize {
  match ai {
    24 => 1,
    25 => 2,
    26 => 4,
    27 => 8,
    _ => 0,
  }
}

/// Reference head reader. No loops over input: the argument is assembled bytewise.
pub fn ref_head(b: &[u8]) -> Head {
  if b.is_empty() {
    return Head::Truncated;
  }
  let major = b[0] >> 5;
  let ai = b[0] & 0x1f;
  if ai >= 28 && ai <= 30 {
    return Head::Reserved;
  }
  if ai == 31 {
    return match major {
      2 | 3 | 4 | 5 | 7 => Head::Indef { major },
      _ => Head::Reserved,
    };
  }
  let n = arg_len(ai);
  if b.len() < 1 + n {
    return Head::Truncated;
  }
  let arg: u64 = match n {
    0 => ai as u64,
    1 => b[1] as u64,
    2 => ((b[1] as u64) << 8) | b[2] as u64,
    4 => ((b[1] as u64) << 24) | ((b[2] as u64) << 16) | ((b[3] as u64) << 8) | b[4] as u64,
    _ => {
      ((b[1] as u64) << 56)
        | ((b[2] as u64) << 48)
        | ((b[3] as u64) << 40)
        | ((b[4] as u64) << 32)
        | ((b[5] as u64) << 24)
        | ((b[6] as u64) << 16)
        | ((b[7] as u64) << 8)
        | b[8] as u64
    }
  };
  Head::Ok { major, ai, arg, len: 1 + n }
}

/// RFC 8949 Appendix D `decode_half`, expressed on IEEE-754 binary64 bit patterns
/// (integer arithmetic only, so a bit-blasting back end never sees a float op).
/// NaNs are returned as *a* NaN; compare with `same_float`.
pub fn half_to_f64_bits(h: u16) -> u64 {
  let sign = ((h >> 15) as u64) << 63;
  let exp = ((h >> 10) & 0x1f) as u64;
  let mant = (h & 0x3ff) as u64;
  if exp == 0 {
    if mant == 0 {
      return sign;
    }
    // subnormal: mant * 2^-24 ; normalise
    let lz = (mant as u16).leading_zeros() as u64 - 6; // zeros within the 10-bit field
    let shift = lz + 1;
    let frac = (mant << shift) & 0x3ff;
    let e = 1023 - 15 + 1 - shift; // unbiased -14 - shift + ... see below
    return sign | (e << 52) | (frac << 42);
  }
  if exp == 31 {
    return sign | (0x7ffu64 << 52) | (mant << 42);
  }
  sign | ((exp + 1023 - 15) << 52) | (mant << 42)
}

/// binary32 -> binary64 on bit patterns.
pub fn single_to_f64_bits(s: u32) -> u64 {
  let sign = ((s >> 31) as u64) << 63;
  let exp = ((s >> 23) & 0xff) as u64;
  let mant = (s & 0x7f_ffff) as u64;
  if exp == 0 {
    if mant == 0 {
      return sign;
    }
    let lz = (mant as u32).leading_zeros() as u64 - 9; // zeros within the 23-bit field
    let shift = lz + 1;
    let frac = (mant << shift) & 0x7f_ffff;
    let e = 1023 - 127 + 1 - shift;
    return sign | (e << 52) | (frac << 29);
  }
  if exp == 255 {
    return sign | (0x7ffu64 << 52) | (mant << 29);
  }
  sign | ((exp + 1023 - 127) << 52) | (mant << 29)
}

pub fn is_nan_bits(b: u64) -> bool {
  (b >> 52) & 0x7ff == 0x7ff && b & 0x000f_ffff_ffff_ffff != 0
}

/// Equality of floats "by numeric value": identical bits, or both NaN.
pub fn same_float_bits(a: u64, b: u64) -> bool {
  a == b || (is_nan_bits(a) && is_nan_bits(b))
}

// ---------------------------------------------------------------- RFC 3629 UTF-8

/// Is `b` (at most 4 bytes are ever passed by the harnesses, but any length works)
/// well-formed UTF-8 per RFC 3629 §4 (no overlongs, no surrogates, ≤ U+10FFFF)?
pub fn ref_utf8(b: &[u8]) -> bool {
  let n = b.len();
  let mut i = 0;
  while i < n {
    let c = b[i];
    let need = if c < 0x80 {
      0
    } else if c >= 0xc2 && c <= 0xdf {
      1
    } else if c >= 0xe0 && c <= 0xef {
      2
    } else if c >= 0xf0 && c <= 0xf4 {
      3
    } else {
      return false;
    };
    if i + need >= n {
      return false; // truncated sequence
    }
    if need >= 1 {
      let c1 = b[i + 1];
      let (lo, hi) = match c {
        0xe0 => (0xa0, 0xbf),
        0xed => (0x80, 0x9f),
        0xf0 => (0x90, 0xbf),
        0xf4 => (0x80, 0x8f),
        _ => (0x80, 0xbf),
      };
      if c1 < lo || c1 > hi {
        return false;
      }
    }
    if need >= 2 {
      let c2 = b[i + 2];
      if c2 < 0x80 || c2 > 0xbf {
        return false;
      }
    }
    if need >= 3 {
      let c3 = b[i + 3];
      if c3 < 0x80 || c3 > 0xbf {
        return false;
      }
    }
    i += need + 1;
  }
  true
}

// ---------------------------------------------------------------- RFC 8949 full reference decoder (native use)

/// Data-model value produced by the reference decoder. Integers as i128 (−2^64 … 2^64−1),
/// floats as binary64 bit patterns.
#[derive(Clone, Debug, PartialEq)]
pub enum RefValue {
  Int(i128),
  Bytes(Vec<u8>),
  Text(Vec<u8>),
  Float(u64),
  Simple(u8),
  Tag(u64, Box<RefValue>),
  Array(Vec<RefValue>),
  Map(Vec<(RefValue, RefValue)>),
}

/// How `f8 xx` with xx < 32 is judged. RFC 8949 §3.3: such an encoding is not
/// well-formed. The crate decodes it like the one-byte form; the `lenient` switch lets
/// the caller treat that as a named, separately reported deviation.
#[derive(Clone, Copy)]
pub struct RefOpts {
  pub two_byte_simple_below_32_ok: bool,
}

/// Reference decoder for one data item at the start of `b` (RFC 8949 Appendix C
/// `well_formed`, returning the value). `None` = not well-formed / truncated / invalid
/// UTF-8. Returns the value and the number of bytes consumed. Recursion depth is bounded
/// by `depth`.
pub fn ref_decode(b: &[u8], opts: RefOpts, depth: usize) -> Option<(RefValue, usize)> {
  if depth == 0 {
    return None;
  }
  match ref_head(b) {
    Head::Truncated | Head::Reserved => None,
    Head::Indef { major } => {
      let mut pos = 1usize;
      match major {
        2 | 3 => {
          let mut acc: Vec<u8> = Vec::new();
          loop {
            if pos >= b.len() {
              return None;
            }
            if b[pos] == 0xff {
              pos += 1;
              break;
            }
            match ref_head(&b[pos..]) {
              Head::Ok { major: m, arg, len, .. } if m == major => {
                let n = usize::try_from(arg).ok()?;
                let start = pos + len;
                let end = start.checked_add(n)?;
                if end > b.len() {
                  return None;
                }
                if major == 3 && !ref_utf8(&b[start..end]) {
                  return None;
                }
                acc.extend_from_slice(&b[start..end]);
                pos = end;
              }
              _ => return None,
            }
          }
          Some((if major == 2 { RefValue::Bytes(acc) } else { RefValue::Text(acc) }, pos))
        }
        4 => {
          let mut items = Vec::new();
          loop {
            if pos >= b.len() {
              return None;
            }
            if b[pos] == 0xff {
              pos += 1;
              break;
            }
            let (v, n) = ref_decode(&b[pos..], opts, depth - 1)?;
            items.push(v);
            pos += n;
          }
          Some((RefValue::Array(items), pos))
        }
        5 => {
          let mut items = Vec::new();
          loop {
            if pos >= b.len() {
              return None;
            }
            if b[pos] == 0xff {
              pos += 1;
              break;
            }
            let (k, n) = ref_decode(&b[pos..], opts, depth - 1)?;
            pos += n;
            let (v, n) = ref_decode(&b[pos..], opts, depth - 1)?;
            pos += n;
            items.push((k, v));
          }
          Some((RefValue::Map(items), pos))
        }
        _ => None, // break outside an indefinite-length item
      }
    }
    Head::Ok { major, ai, arg, len } => match major {
      0 => Some((RefValue::Int(arg as i128), len)),
      1 => Some((RefValue::Int(-1 - (arg as i128)), len)),
      2 | 3 => {
        let n = usize::try_from(arg).ok()?;
        let end = len.checked_add(n)?;
        if end > b.len() {
          return None;
        }
        if major == 3 && !ref_utf8(&b[len..end]) {
          return None;
        }
        let v = b[len..end].to_vec();
        Some((if major == 2 { RefValue::Bytes(v) } else { RefValue::Text(v) }, end))
      }
      4 => {
        let mut pos = len;
        let mut items = Vec::new();
        let mut i = 0u64;
        while i < arg {
          let (v, n) = ref_decode(b.get(pos..)?, opts, depth - 1)?;
          items.push(v);
          pos += n;
          i += 1;
        }
        Some((RefValue::Array(items), pos))
      }
      5 => {
        let mut pos = len;
        let mut items = Vec::new();
        let mut i = 0u64;
        while i < arg {
          let (k, n) = ref_decode(b.get(pos..)?, opts, depth - 1)?;
          pos += n;
          let (v, n) = ref_decode(b.get(pos..)?, opts, depth - 1)?;
          pos += n;
          items.push((k, v));
          i += 1;
        }
        Some((RefValue::Map(items), pos))
      }
      6 => {
        let (v, n) = ref_decode(&b[len..], opts, depth - 1)?;
        Some((RefValue::Tag(arg, Box::new(v)), len + n))
      }
      _ => match ai {
        0..=23 => Some((RefValue::Simple(ai), len)),
        24 => {
          if arg < 32 && !opts.two_byte_simple_below_32_ok {
            None
          } else {
            Some((RefValue::Simple(arg as u8), len))
          }
        }
        25 => Some((RefValue::Float(half_to_f64_bits(arg as u16)), len)),
        26 => Some((RefValue::Float(single_to_f64_bits(arg as u32)), len)),
        _ => Some((RefValue::Float(arg), len)),
      },
    },
  }
}

// ---------------------------------------------------------------- RFC 8610 integer literals

pub fn dec_digit(c: u8) -> Option<u8> {
  if c >= b'0' && c <= b'9' {
    Some(c - b'0')
  } else {
    None
  }
}
pub fn hex_digit(c: u8) -> Option<u8> {
  if c >= b'0' && c <= b'9' {
    Some(c - b'0')
  } else if c >= b'a' && c <= b'f' {
    Some(c - b'a' + 10)
  } else if c >= b'A' && c <= b'F' {
    Some(c - b'A' + 10)
  } else {
    None
  }
}
pub fn bin_digit(c: u8) -> Option<u8> {
  if c == b'0' || c == b'1' {
    Some(c - b'0')
  } else {
    None
  }
}

/// RFC 8610 App. B `uint = DIGIT1 *DIGIT / "0x" 1*HEXDIG / "0b" 1*BINDIG / "0"`, value as a
/// mathematical integer (u128 never overflows for the ≤ 70-character inputs used).
/// `None` = not a `uint` spelling. Prefix case-insensitive as in the crate's grammar.
pub fn ref_uint_value(s: &[u8]) -> Option<u128> {
  let n = s.len();
  if n == 0 || n > 70 {
    return None;
  }
  let (radix, start): (u128, usize) = if n >= 2 && s[0] == b'0' && (s[1] == b'x' || s[1] == b'X') {
    (16, 2)
  } else if n >= 2 && s[0] == b'0' && (s[1] == b'b' || s[1] == b'B') {
    (2, 2)
  } else {
    (10, 0)
  };
  if start == n {
    return None;
  }
  if radix == 10 && n > 1 && s[0] == b'0' {
    return None; // no leading zeros
  }
  let mut v: u128 = 0;
  let mut i = start;
  while i < n {
    let d = match radix {
      16 => hex_digit(s[i])?,
      2 => bin_digit(s[i])?,
      _ => dec_digit(s[i])?,
    };
    v = v.checked_mul(radix)?.checked_add(d as u128)?;
    if v > (1u128 << 100) {
      // saturate: anything this large is unrepresentable in 64 bits anyway
      v = 1u128 << 100;
    }
    i += 1;
  }
  Some(v)
}

/// RFC 8610 `int = ["-"] uint` as a mathematical integer.
pub fn ref_int_value(s: &[u8]) -> Option<i128> {
  if !s.is_empty() && s[0] == b'-' {
    ref_uint_value(&s[1..]).map(|v| -(v as i128))
  } else {
    ref_uint_value(s).map(|v| v as i128)
  }
}

// ---------------------------------------------------------------- RFC 4648

/// base16, case-insensitive (RFC 4648 §8; RFC 8610 §3.1 admits both cases).
pub fn ref_hex_decode(s: &[u8]) -> Option<Vec<u8>> {
  if s.len() % 2 != 0 {
    return None;
  }
  let mut out = Vec::with_capacity(s.len() / 2);
  let mut i = 0;
  while i < s.len() {
    let h = hex_digit(s[i])?;
    let l = hex_digit(s[i + 1])?;
    out.push((h << 4) | l);
    i += 2;
  }
  Some(out)
}

/// Sextet of a base64 / base64url character. `url`: Some(true) = §5 alphabet, Some(false) = §4.
pub fn b64_sextet(c: u8, url: bool) -> Option<u8> {
  if c >= b'A' && c <= b'Z' {
    Some(c - b'A')
  } else if c >= b'a' && c <= b'z' {
    Some(c - b'a' + 26)
  } else if c >= b'0' && c <= b'9' {
    Some(c - b'0' + 52)
  } else if (!url && c == b'+') || (url && c == b'-') {
    Some(62)
  } else if (!url && c == b'/') || (url && c == b'_') {
    Some(63)
  } else {
    None
  }
}

/// RFC 4648 §4/§5 decoding as the crate documents it for `b64'…'` literals: either
/// alphabet (never both in one literal), padding optional but canonical when present,
/// non-zero trailing bits rejected (canonical encoding, RFC 4648 §3.5).
pub fn ref_b64_decode(s: &[u8]) -> Option<Vec<u8>> {
  let mut classic = false;
  let mut url = false;
  let mut pad = 0usize;
  let mut i = 0;
  while i < s.len() {
    match s[i] {
      b'+' | b'/' => classic = true,
      b'-' | b'_' => url = true,
      b'=' => pad += 1,
      _ => {}
    }
    i += 1;
  }
  if classic && url {
    return None;
  }
  let mut body_len = s.len();
  if pad > 0 {
    // padding only at the end, total length multiple of 4, at most two
    if s.len() % 4 != 0 || pad > 2 {
      return None;
    }
    let mut k = 0;
    while k < pad {
      if s[s.len() - 1 - k] != b'=' {
        return None;
      }
      k += 1;
    }
    body_len = s.len() - pad;
  }
  let rem = body_len % 4;
  if rem == 1 {
    return None;
  }
  if pad > 0 && (4 - rem) % 4 != pad {
    return None;
  }
  let mut out = Vec::with_capacity(body_len * 3 / 4);
  let mut acc: u32 = 0;
  let mut bits = 0u32;
  let mut j = 0;
  while j < body_len {
    let v = b64_sextet(s[j], url)? as u32;
    acc = (acc << 6) | v;
    bits += 6;
    if bits >= 8 {
      bits -= 8;
      out.push((acc >> bits) as u8);
      acc &= (1 << bits) - 1;
    }
    j += 1;
  }
  if acc != 0 {
    return None; // non-canonical trailing bits
  }
  Some(out)
}

// ---------------------------------------------------------------- positions

/// 1-based line and column (in characters) of byte offset `idx` in `s`; `idx` must be a
/// char boundary.
pub fn ref_line_col(s: &str, idx: usize) -> (usize, usize) {
  let mut line = 1;
  let mut col = 1;
  for (i, ch) in s.char_indices() {
    if i >= idx {
      break;
    }
    if ch == '\n' {
      line += 1;
      col = 1;
    } else {
      col += 1;
    }
  }
  (line, col)
}
