"""E3 — MIR slice → SMT (z3): the code-point arithmetic of `pest_bridge::unescape_text`.

`unescape_text` as a whole is out of Kani's reach (String growth, char iterators, from_str_radix on
heap strings). Its *arithmetic* — how the value(s) parsed from `\\uXXXX`, `\\uHHHH\\uLLLL` and
`\\u{…}` become the scalar handed to `char::from_u32` — is a loop-free region of the function's MIR.
This tool dumps the MIR of /repo's current source with the nightly toolchain, symbolically executes
that region (bit-vectors of width 32, overflow-checked operators as MIR has them), and asks z3
whether for every pair (high surrogate, low surrogate) the argument of `from_u32` is the scalar RFC
8259 §7 / RFC 9682 assign (0x10000 + ((hi − 0xD800) << 10) + (lo − 0xDC00)), whether a non-surrogate
`\\uXXXX` and a `\\u{…}` value are passed through unchanged, and whether any of the checked
arithmetic on those paths can overflow (= panic). The values parsed by `from_str_radix` are the
symbolic inputs; everything outside the region (which escapes are recognised, how digits are
collected) is outside the claim — that part is decided by E2 on the grammar.
"""
import os
import re
import shutil
import subprocess
import time

import z3

VERIF = os.path.dirname(os.path.dirname(os.path.abspath(__file__)))
MIR_TARGET = os.path.join(VERIF, ".build", "mir")


class MirError(Exception):
    pass


def dump_mir():
    """MIR of the cddl lib crate from /repo's working tree (forces the crate itself to be re-compiled)."""
    fp = os.path.join(MIR_TARGET, "debug", ".fingerprint")
    if os.path.isdir(fp):
        for d in os.listdir(fp):
            if d.startswith("cddl-"):
                shutil.rmtree(os.path.join(fp, d), ignore_errors=True)
    env = dict(os.environ)
    env["CARGO_NET_OFFLINE"] = "true"
    env.pop("RUSTFLAGS", None)
    t0 = time.time()
    p = subprocess.run(["cargo", "+nightly", "rustc", "--offline", "--lib", "--target-dir", MIR_TARGET, "--",
                        "-Zunpretty=mir", "-C", "debug-assertions=off", "-C", "overflow-checks=on"],
                       cwd="/repo", env=env, stdout=subprocess.PIPE, stderr=subprocess.PIPE, text=True)
    if p.returncode != 0 or "fn " not in p.stdout:
        raise MirError("MIR dump failed: " + p.stderr[-1500:])
    return p.stdout, time.time() - t0


def function_body(mir, name):
    m = re.search(r"^fn (?:[\w:]+::)?%s\(.*?\{\n(.*?)^\}" % re.escape(name), mir, re.S | re.M)
    if not m:
        raise MirError(f"function {name} not found in MIR")
    return m.group(1)


def promoted_ranges(mir, name):
    out = {}
    for m in re.finditer(r"^const (?:[\w:]+::)?%s::promoted\[(\d+)\]: &std::ops::RangeInclusive<u32> = \{(.*?)^\}" % re.escape(name),
                         mir, re.S | re.M):
        r = re.search(r"RangeInclusive::<u32>::new\(const (\d+)_u32, const (\d+)_u32\)", m.group(2))
        if r:
            out[int(m.group(1))] = (int(r.group(1)), int(r.group(2)))
    return out


def blocks(body):
    out = {}
    for m in re.finditer(r"^\s*bb(\d+)(?: \(cleanup\))?: \{\n(.*?)^\s*\}", body, re.S | re.M):
        lines = [l.strip() for l in m.group(2).splitlines() if l.strip() and not l.strip().startswith("//")]
        out[int(m.group(1))] = lines
    return out


BV = lambda n: z3.BitVecVal(n, 32)


def free_vars(exprs):
    from z3 import z3util
    out = {}
    for e in exprs:
        for v in z3util.get_vars(e):
            out[str(v)] = v
    return out


class Sink:
    def __init__(self, kind, pc, arg, inputs, obligations, path):
        self.kind, self.pc, self.arg, self.obligations, self.path = kind, pc, arg, obligations, path
        # the inputs this sink actually depends on (the dict handed in is shared between sibling paths)
        self.inputs = free_vars([arg] + list(pc))


class Exec:
    """Symbolic execution of a loop-free region. Locals hold z3 BitVec(32), Bool, tuples
    (value, overflow flag) or ("ref", local) / ("range", lo, hi)."""

    def __init__(self, bbs, ranges):
        self.bbs, self.ranges = bbs, ranges
        self.sinks = []
        self.fresh = 0
        self.unsupported = []

    def operand(self, env, s, inputs):
        s = s.strip()
        m = re.match(r"const (-?\d+)_(?:u32|i32|usize|u64|u8)$", s)
        if m:
            return BV(int(m.group(1)) & 0xFFFFFFFF)
        m = re.match(r"(?:copy|move) \(\(_(\d+) as Ok\)\.0: u32\)$", s)
        if m:
            return self.input(inputs, "parsed_" + m.group(1))
        m = re.match(r"(?:copy|move) \(_(\d+)\.([01]): (?:u32|bool)\)$", s)
        if m:
            t = env.get(int(m.group(1)))
            if isinstance(t, tuple) and t[0] == "pair":
                return t[1 + int(m.group(2))]
            return None
        m = re.match(r"(?:copy|move) \(\*_(\d+)\)$", s)
        if m:
            r = env.get(int(m.group(1)))
            if isinstance(r, tuple) and r[0] == "ref":
                return env.get(r[1])
            return None
        m = re.match(r"(?:copy|move) _(\d+)$", s)
        if m:
            return env.get(int(m.group(1)))
        return None

    def input(self, inputs, name):
        if name not in inputs:
            inputs[name] = z3.BitVec(name, 32)
        return inputs[name]

    def run(self, bb, env, pc, inputs, obligations, path, depth=0):
        if depth > 60 or bb in path:
            return
        path = path + [bb]
        env = dict(env)
        for line in self.bbs.get(bb, []):
            # ---- terminators
            m = re.match(r"goto -> bb(\d+);", line)
            if m:
                return self.run(int(m.group(1)), env, pc, inputs, obligations, path, depth + 1)
            if line.startswith(("return;", "unreachable;", "resume;")):
                return
            m = re.match(r"drop\(.*?\) -> \[return: bb(\d+)", line)
            if m:
                return self.run(int(m.group(1)), env, pc, inputs, obligations, path, depth + 1)
            m = re.match(r"assert\((!?)(?:move|copy) (.*?), \".*?\) -> \[success: bb(\d+)", line)
            if m:
                neg, what, nxt = m.group(1), m.group(2), int(m.group(3))
                c = self.operand(env, "move " + what, inputs)
                if c is not None and z3.is_bool(c):
                    ok = z3.Not(c) if neg else c
                    obligations = obligations + [(list(pc), ok, line[:90])]
                    pc = pc + [ok]
                return self.run(nxt, env, pc, inputs, obligations, path, depth + 1)
            m = re.match(r"switchInt\((?:move|copy) _(\d+)\) -> \[(.*)\];", line)
            if m:
                c = env.get(int(m.group(1)))
                arms = [a.strip() for a in m.group(2).split(",")]
                targets = []
                for a in arms:
                    k, t = a.split(":")
                    targets.append((k.strip(), int(t.strip()[2:])))
                if c is not None and z3.is_bool(c):
                    for k, t in targets:
                        if k == "0":
                            self.run(t, env, pc + [z3.Not(c)], inputs, obligations, path, depth + 1)
                        elif k in ("otherwise", "1"):
                            self.run(t, env, pc + [c], inputs, obligations, path, depth + 1)
                    return
                # unknown discriminant (Option / Result of a call we do not model): follow every arm
                for k, t in targets:
                    if self.bbs.get(t, [""])[0].startswith("unreachable"):
                        continue
                    self.run(t, env, pc, inputs, obligations, path, depth + 1)
                return
            m = re.match(r"_(\d+) = (.*?)\((.*)\) -> \[return: bb(\d+)", line)
            if m:
                dst, fn, args, nxt = int(m.group(1)), m.group(2), m.group(3), int(m.group(4))
                if "RangeInclusive::<u32>::contains" in fn:
                    a = [x.strip() for x in args.split(",")]
                    rng = env.get(int(re.search(r"_(\d+)", a[0]).group(1)))
                    ref = env.get(int(re.search(r"_(\d+)", a[1]).group(1)))
                    x = env.get(ref[1]) if isinstance(ref, tuple) and ref[0] == "ref" else None
                    if isinstance(rng, tuple) and rng[0] == "range" and x is not None:
                        env[dst] = z3.And(z3.UGE(x, BV(rng[1])), z3.ULE(x, BV(rng[2])))
                    else:
                        env[dst] = None
                elif "char::from_u32" in fn or "from_u32" in fn.split("::")[-1]:
                    x = self.operand(env, args, inputs)
                    if x is not None:
                        self.sinks.append(Sink("from_u32", list(pc), x, dict(inputs), list(obligations), path))
                    env[dst] = None
                else:
                    env[dst] = None
                return self.run(nxt, env, pc, inputs, obligations, path, depth + 1)
            # ---- statements
            m = re.match(r"_(\d+) = const (?:[\w:]+::)?\w+::promoted\[(\d+)\];", line)
            if m:
                k = int(m.group(2))
                env[int(m.group(1))] = ("range",) + self.ranges[k] if k in self.ranges else None
                continue
            m = re.match(r"_(\d+) = &(?:mut )?_(\d+);", line)
            if m:
                env[int(m.group(1))] = ("ref", int(m.group(2)))
                continue
            m = re.match(r"_(\d+) = (\w+)\((.*), (.*)\);", line)
            if m and m.group(2) in ("Add", "Sub", "Mul", "Shl", "Shr", "BitOr", "BitAnd", "BitXor", "AddWithOverflow",
                                    "SubWithOverflow", "MulWithOverflow", "Lt", "Le", "Gt", "Ge", "Eq", "Ne",
                                    "AddUnchecked", "SubUnchecked", "ShlUnchecked"):
                dst, op = int(m.group(1)), m.group(2)
                a, b = self.operand(env, m.group(3), inputs), self.operand(env, m.group(4), inputs)
                if a is None or b is None or z3.is_bool(a) or z3.is_bool(b):
                    env[dst] = None
                    continue
                wide = lambda x: z3.ZeroExt(32, x)
                if op in ("Add", "AddUnchecked"):
                    env[dst] = a + b
                elif op in ("Sub", "SubUnchecked"):
                    env[dst] = a - b
                elif op == "Mul":
                    env[dst] = a * b
                elif op in ("Shl", "ShlUnchecked"):
                    env[dst] = a << b
                elif op == "Shr":
                    env[dst] = z3.LShR(a, b)
                elif op == "BitOr":
                    env[dst] = a | b
                elif op == "BitAnd":
                    env[dst] = a & b
                elif op == "BitXor":
                    env[dst] = a ^ b
                elif op == "AddWithOverflow":
                    env[dst] = ("pair", a + b, z3.UGT(wide(a) + wide(b), z3.BitVecVal(0xFFFFFFFF, 64)))
                elif op == "SubWithOverflow":
                    env[dst] = ("pair", a - b, z3.ULT(a, b))
                elif op == "MulWithOverflow":
                    env[dst] = ("pair", a * b, z3.UGT(wide(a) * wide(b), z3.BitVecVal(0xFFFFFFFF, 64)))
                else:
                    env[dst] = {"Lt": z3.ULT, "Le": z3.ULE, "Gt": z3.UGT, "Ge": z3.UGE,
                                "Eq": lambda x, y: x == y, "Ne": lambda x, y: x != y}[op](a, b)
                continue
            m = re.match(r"_(\d+) = (.*?) as u32 \(IntToInt\);", line)
            if m:
                env[int(m.group(1))] = self.operand(env, m.group(2), inputs)
                continue
            m = re.match(r"_(\d+) = (?:Not|!)\((.*)\);", line)
            if m:
                v = self.operand(env, m.group(2), inputs)
                env[int(m.group(1))] = z3.Not(v) if v is not None and z3.is_bool(v) else None
                continue
            m = re.match(r"_(\d+) = ((?:copy|move|const) .*);", line)
            if m:
                env[int(m.group(1))] = self.operand(env, m.group(2), inputs)
                continue
            m = re.match(r"_(\d+) = ", line)
            if m:
                env[int(m.group(1))] = None  # statement we do not model: the local becomes unknown
                continue
            # StorageLive / StorageDead / nop / etc.
        return


def analyse(mir):
    body = function_body(mir, "unescape_text")
    ranges = promoted_ranges(mir, "unescape_text")
    bbs = blocks(body)
    # entry points of the region: every block that extracts the Ok value of a from_str_radix call
    starts = []
    for bb, lines in bbs.items():
        for l in lines:
            if re.match(r"_\d+ = copy \(\(_\d+ as Ok\)\.0: u32\);", l):
                starts.append(bb)
                break
    ex = Exec(bbs, ranges)
    for s in sorted(starts):
        ex.run(s, {}, [], {}, [], [])
    return ex, ranges, starts, len(bbs)
