"""E2, oracle side: the ABNF of RFC 8610 Appendix B as updated by RFC 9682, written as grammar
combinators and encoded as bounded *span derivability* D[e][i][j] ("e derives S[i:j]"),
CYK style, memoised per sub-expression and span.

The grammar is built by make_grammar(sw) from a set of named switches. Switches are the only
way the oracle differs from the RFC text:
  L_*   documented leniencies of the crate's grammar file (part of the property)
  DC_*  RFC-ambiguous spots, don't-care (never alarm in either direction)
  F_*   named relaxations/restrictions, one per known finding (known_findings.json)
Over-acceptance is judged against D_hi (every switch that enlarges the language on),
rejection of derivable text against D_lo (every switch that shrinks it on).
"""
import z3

# ---- combinators -----------------------------------------------------------------------


class G:
    pass


class R(G):  # byte range
    def __init__(s, lo, hi):
        s.lo, s.hi = lo, hi


class L(G):  # literal; ABNF quoted strings are case-insensitive unless cs=True
    def __init__(s, t, cs=False):
        s.t, s.cs = t, cs


class C(G):  # concatenation
    def __init__(s, *xs):
        s.xs = xs


class A(G):  # alternation
    def __init__(s, *xs):
        s.xs = xs


class Rep(G):  # lo..hi repetition (hi None = unbounded)
    def __init__(s, x, lo=0, hi=None):
        s.x, s.lo, s.hi = x, lo, hi


class N(G):  # nonterminal reference
    def __init__(s, n):
        s.n = n


class NotNext(G):  # zero-width: end of input or next byte not in [lo,hi] ranges
    def __init__(s, ranges):
        s.ranges = ranges


class EOF(G):
    pass


class NotAhead(G):  # zero-width: x derives no span starting here
    def __init__(s, x):
        s.x = x


def Opt(x):
    return Rep(x, 0, 1)


CONTROL_NAMES = None  # filled from cddl.pest's control_name rule by the driver


def make_grammar(sw, control_names, utf8=False):
    """sw: set of switch names that are ON."""
    on = lambda k: k in sw
    g = {}
    DIGIT = R(0x30, 0x39)
    DIGIT1 = R(0x31, 0x39)
    HEXDIG = A(DIGIT, R(0x41, 0x46), R(0x61, 0x66))  # "A".."F" are case-insensitive ABNF strings
    HEXDIG1 = A(DIGIT1, R(0x41, 0x46), R(0x61, 0x66))
    BINDIG = R(0x30, 0x31)
    ALPHA = A(R(0x41, 0x5A), R(0x61, 0x7A))
    EALPHA = A(ALPHA, L("@"), L("_"), L("$"))
    S = N("S")
    ALNUM = [(0x30, 0x39), (0x41, 0x5A), (0x61, 0x7A)]

    # NONASCII = %xA0-D7FF / %xE000-10FFFD ; in scope: 2-byte UTF-8 scalars U+0080..U+07FF
    nonascii = []
    c1 = []
    if utf8:
        nonascii = [C(R(0xC2, 0xC2), R(0xA0, 0xBF)), C(R(0xC3, 0xDF), R(0x80, 0xBF))]
        c1 = [C(R(0xC2, 0xC2), R(0x80, 0x9F))]  # U+0080..U+009F: not in NONASCII
    g["NONASCII"] = A(*nonascii) if nonascii else A()
    g["CRLF"] = A(L("\n"), L("\r\n"))

    pchar = [R(0x20, 0x7E), N("NONASCII")]
    if on("L_tab"):
        pchar.append(R(0x09, 0x09))
    if on("F_comment_any_char"):
        pchar += [R(0x00, 0x08), R(0x0B, 0x1F), R(0x7F, 0x7F)] + c1  # everything but LF
    g["PCHAR"] = A(*pchar)
    if on("F_comment_any_char"):
        # a CR that is followed by LF ends the comment in the crate; a lone CR is content.
        # As derivability both readings are already covered by PCHAR ∪ {CR}.
        pass
    comment_end = [N("CRLF")]
    if on("L_final_comment"):
        comment_end.append(EOF())
    g["COMMENT"] = C(L(";"), Rep(N("PCHAR")), A(*comment_end))
    ws = [L(" "), N("COMMENT"), N("CRLF")]
    if on("L_tab"):
        ws.append(L("\t"))
    if on("F_bare_cr_whitespace"):
        ws.append(L("\r"))
    g["WS"] = A(*ws)
    g["S"] = Rep(N("WS"))

    # ---- identifiers
    if on("F_id_multi_punct"):
        # restricted reading (D_lo): at most one "-" / "." between name characters
        idtail = Rep(C(Opt(A(L("-"), L("."))), A(EALPHA, DIGIT)))
    else:
        idtail = Rep(C(Rep(A(L("-"), L("."))), A(EALPHA, DIGIT)))
    g["id"] = C(EALPHA, idtail)
    if on("F_dollar_id"):
        # restricted reading (D_lo): an id does not begin with "$"; type names may carry one
        # "$" and group names "$$" in front (socket/plug), nothing else may.
        EALPHA0 = A(ALPHA, L("@"), L("_"))
        # (maximal munch; and a name is not directly followed by a quote: the crate reads
        # h"…", h'…', b64'…' as one byte-string token)
        g["id0"] = C(EALPHA0, idtail, NotAhead(A(C(Opt(A(L("-"), L("."))), A(EALPHA, DIGIT)), L('"'), L("'")))) if on("F_maximal_munch") else C(EALPHA0, idtail)
        g["id"] = N("id0")
        g["typename"] = C(Opt(L("$")), N("id0"))
        g["groupname"] = C(Opt(L("$$")), N("id0"))
    else:
        g["typename"] = N("id")
        g["groupname"] = N("id")
    if on("F_socket_space"):
        # relaxed reading (D_hi): the crate's non-atomic typename/groupname rules let white
        # space and comments sit between the "$" / "$$" prefix and the name
        EALPHA0 = A(ALPHA, L("@"), L("_"))
        g["typename"] = A(N("id"), C(L("$"), S, EALPHA0, idtail))
        g["groupname"] = A(N("id"), C(L("$$"), S, EALPHA0, idtail))
    g["bareword"] = N("id")
    if on("F_socket_space"):
        g["bareword"] = N("typename")

    # ---- numbers
    g["uint"] = A(C(DIGIT1, Rep(DIGIT)), C(L("0x"), Rep(HEXDIG, 1)), C(L("0b"), Rep(BINDIG, 1)), L("0"))
    g["decuint"] = A(C(DIGIT1, Rep(DIGIT)), L("0"))
    g["int"] = C(Opt(L("-")), N("uint"))
    g["negint"] = C(L("-"), N("uint"))  # what the crate's int_value rule is meant to cover
    g["exponent"] = C(Opt(A(L("+"), L("-"))), Rep(DIGIT, 1))
    g["hexfloat"] = C(Opt(L("-")), L("0x"), Rep(HEXDIG, 1), Opt(C(L("."), Rep(HEXDIG, 1))), L("p"), N("exponent"))
    mant = N("int") if on("DC_radix_mantissa") else C(Opt(L("-")), N("decuint"))
    g["number"] = A(N("hexfloat"), N("int"),
                    C(mant, A(C(L("."), Rep(DIGIT, 1), Opt(C(L("e"), N("exponent")))), C(L("e"), N("exponent")))))

    # ---- text strings (RFC 9682 §2.1)
    nonsurr = A(C(A(DIGIT, R(0x41, 0x43), R(0x61, 0x63), R(0x45, 0x46), R(0x65, 0x66)), HEXDIG, HEXDIG, HEXDIG),
                C(A(L("D")), R(0x30, 0x37), HEXDIG, HEXDIG))
    highsurr = C(L("D"), A(L("8"), L("9"), L("A"), L("B")), HEXDIG, HEXDIG)
    lowsurr = C(L("D"), A(L("C"), L("D"), L("E"), L("F")), HEXDIG, HEXDIG)
    hexscalar = A(C(L("10"), HEXDIG, HEXDIG, HEXDIG, HEXDIG), C(HEXDIG1, HEXDIG, HEXDIG, HEXDIG, HEXDIG),
                  nonsurr, Rep(HEXDIG, 1, 3))
    hexchar = A(C(L("{"), A(C(Rep(L("0"), 1), Opt(hexscalar)), hexscalar), L("}")),
                nonsurr, C(highsurr, L("\\"), L("u", True), lowsurr))
    if on("F_escape_no_scalar"):
        # relaxed reading (D_hi): \uXXXX with any four hex digits, \u{H+} with any hex digits
        hexchar = A(hexchar, C(HEXDIG, HEXDIG, HEXDIG, HEXDIG), C(L("{"), Rep(HEXDIG, 1), L("}")))
    g["SESC"] = C(L("\\"), A(L('"'), L("/"), L("\\"), L("b", True), L("f", True), L("n", True), L("r", True),
                           L("t", True), C(L("u", True), hexchar)))
    schar = [R(0x20, 0x21), R(0x23, 0x5B), R(0x5D, 0x7E), N("NONASCII"), N("SESC")]
    if on("F_text_control_chars"):
        schar += [R(0x00, 0x1F), R(0x7F, 0x7F)] + c1
    g["SCHAR"] = A(*schar)
    g["text"] = C(L('"'), Rep(N("SCHAR")), L('"'))

    # ---- byte strings (RFC 9682 §2.1.2: BCHAR gains "\'" and loses bare backslash)
    bchar = [R(0x20, 0x26), R(0x28, 0x5B), R(0x5D, 0x7E), N("NONASCII"), N("CRLF")]
    if on("F_bytes_backslash_restricted"):
        pass  # restricted reading (D_lo): no escapes at all inside '…'
    else:
        bchar += [N("SESC"), L("\\'")]
    if on("F_bytes_any_char"):
        # relaxed reading (D_hi): any character except the quote, backslash included
        bchar += [R(0x00, 0x09), R(0x0B, 0x1F), R(0x7F, 0x7F), R(0x5C, 0x5C)] + c1
    g["BCHAR"] = A(*bchar)
    quals = [L("h", not on("DC_qualifier_case")), L("b64", not on("DC_qualifier_case"))]
    g["bytes"] = C(Opt(A(*quals)), L("'"), Rep(N("BCHAR")), L("'"))
    vals = [N("number"), N("text"), N("bytes")]
    if on("L_hquoted"):
        # h"…": any characters except the double quote (crate leniency)
        hq = [R(0x20, 0x21), R(0x23, 0x7E), N("NONASCII"), R(0x00, 0x1F), R(0x7F, 0x7F)] + c1
        vals.append(C(L("h", True), L('"'), Rep(A(*hq)), L('"')))
    if on("F_maximal_munch"):
        # restricted reading (D_lo): a number token is not directly followed by a name
        # character (the crate's tokens are maximal; "0E1=i" is one float, then garbage)
        vals[0] = C(N("number"), NotNext(ALNUM))
    g["value"] = A(*vals)

    # ---- types
    gsp = [S] if on("F_generic_space") else []
    # relaxed reading (D_hi, F_generic_space): white space / comments between a name and "<"
    g["genericparm"] = C(*gsp, L("<"), S, N("id"), S, Rep(C(L(","), S, N("id"), S)), L(">"))
    g["genericarg"] = C(*gsp, L("<"), S, N("type1"), S, Rep(C(L(","), S, N("type1"), S)), L(">"))
    g["type"] = C(N("type1"), Rep(C(S, L("/"), S, N("type1"))))
    g["rangeop"] = A(L("..."), L(".."))
    # relaxed reading (D_hi, F_ctl_space): control_op is non-atomic in the crate's grammar
    ctl_tail = [NotAhead(C(Opt(A(L("-"), L("."))), A(EALPHA, DIGIT)))] if on("F_maximal_munch") else []
    names = [n for n in control_names if not (on("F_cborseq_shadowed") and n == "cborseq")]
    g["ctlop"] = C(L("."), *([S] if on("F_ctl_space") else []), A(*[L(n, True) for n in names]), *ctl_tail)
    g["type1"] = C(N("type2"), Opt(C(S, A(N("rangeop"), N("ctlop")), S, N("type2"))))
    # (D_lo, F_maximal_munch: a head number is not directly followed by a name character —
    # the crate reads "#6.0xC" as one hex literal)
    g["uint_m"] = C(N("uint"), NotNext(ALNUM)) if on("F_maximal_munch") else N("uint")
    headnum = A(N("uint_m"), C(L("<"), S, N("type"), S, L(">")) if on("F_tag_space") else C(L("<"), N("type"), L(">")))
    t2 = [N("value"), C(N("typename"), Opt(N("genericarg"))),
          C(L("("), S, N("type"), S, L(")")),
          C(L("{"), S, N("group"), S, L("}")),
          C(L("["), S, N("group"), S, L("]")),
          C(L("~"), S, N("typename"), Opt(N("genericarg"))),
          C(L("&"), S, L("("), S, N("group"), S, L(")")),
          C(L("&"), S, N("groupname"), Opt(N("genericarg"))),
          C(L("#"), L("6"), Opt(C(L("."), headnum)), L("("), S, N("type"), S, L(")")),
          C(L("#"), L("7"), Opt(C(L("."), headnum))),
          C(L("#"), DIGIT, Opt(C(L("."), N("uint_m")))),
          # restricted reading (D_lo, F_maximal_munch): a bare "#" is not followed by (white
          # space and) a digit or "(" — the crate reads "# 7" / "#(" as one tag expression
          C(L("#"), NotAhead(C(S, A(DIGIT, L("("))))) if on("F_maximal_munch") else L("#")]
    if on("L_hash_type"):
        t2.append(C(L("#"), L("("), S, N("type"), S, L(")")))
    if on("F_tag_space"):
        # relaxed reading (D_hi): tag_expr / tag_value are non-atomic in the crate's grammar, so
        # white space and comments may sit between "#", the digit, ".", the head number and "("
        hn = A(N("uint"), C(L("<"), S, N("type"), S, L(">")))
        t2.append(C(L("#"), S, DIGIT, Opt(C(S, L("."), S, hn)), Opt(C(S, L("("), S, N("type"), S, L(")")))))
        t2.append(C(L("#"), S, L("("), S, N("type"), S, L(")")))
    g["type2"] = A(*t2)

    # ---- groups
    g["group"] = C(N("grpchoice"), Rep(C(S, L("//"), S, N("grpchoice"))))
    g["optcom"] = C(S, Opt(C(L(","), S)))
    g["grpchoice"] = Rep(C(N("grpent"), N("optcom")))
    if on("F_star_then_digit"):
        # restricted reading (D_lo): an occurrence "*" / "n*" without upper bound is not
        # directly followed by a digit (the crate reads "*4" as an occurrence with bound 4)
        g["occur"] = A(C(Opt(N("uint")), L("*"), A(C(N("uint"), NotNext(ALNUM)), NotNext([(0x30, 0x39)]))), L("+"), L("?"))
    else:
        g["occur"] = A(C(Opt(N("uint")), L("*"), Opt(N("uint"))), L("+"), L("?"))
    mk = [C(N("type1"), S, Opt(C(L("^"), S)), L("=>")), C(N("bareword"), S, L(":"))]
    if on("F_prefixed_bytes_key"):
        # restricted reading (D_lo): h'…' / b64'…' / h"…" as a "value:" key is rejected by the
        # crate (the prefix is taken as a bareword and the alternative is never retried)
        mk.append(C(A(N("number"), N("text"), C(L("'"), Rep(N("BCHAR")), L("'"))), S, L(":")))
    else:
        mk.append(C(N("value"), S, L(":")))
    if on("F_memberkey_generic"):
        # relaxed reading (D_hi): the crate also lets "name<args> :" through as a member key
        mk.append(C(N("typename"), N("genericarg"), S, L(":")))
    g["memberkey"] = A(*mk)
    if on("F_paren_type_in_group"):
        # restricted reading (D_lo): an entry without member key whose type begins with "(" is
        # taken as an inline group by the crate and never re-read as a type, so "(int) / tstr"
        # as an array element is rejected. Only the memberkey form or a type not starting
        # with "(" is kept (a bare "(…)" is still covered by the inline-group alternative).
        ent_type = A(C(N("memberkey"), S, N("type")), C(NotNext([(0x28, 0x28)]), N("type")))
    else:
        ent_type = C(Opt(C(N("memberkey"), S)), N("type"))
    g["grpent"] = A(C(Opt(C(N("occur"), S)), ent_type),
                    C(Opt(C(N("occur"), S)), N("groupname"), Opt(N("genericarg"))),
                    C(Opt(C(N("occur"), S)), L("("), S, N("group"), S, L(")")))
    trule = C(N("typename"), Opt(N("genericparm")), S, A(L("="), L("/=")), S, N("type"))
    if on("F_top_level_group_rule"):
        # restricted reading (D_lo): with "=" the crate tries the type rule first and never
        # comes back, so a group rule under "=" is only reachable when no type can start
        # there: entries that begin with a non-digit occurrence indicator. "//=" is unaffected.
        occ0 = A(C(L("*"), A(C(N("uint"), NotNext(ALNUM)), NotNext([(0x30, 0x39)]))), L("+"), L("?"))
        ent0 = A(C(occ0, S, ent_type),
                 C(occ0, S, N("groupname"), Opt(N("genericarg"))),
                 C(occ0, S, L("("), S, N("group"), S, L(")")))
        grule = A(C(N("groupname"), Opt(N("genericparm")), S, L("//="), S, N("grpent")),
                  C(N("groupname"), Opt(N("genericparm")), S, L("="), S, ent0))
    else:
        grule = C(N("groupname"), Opt(N("genericparm")), S, A(L("="), L("//=")), S, N("grpent"))
    g["rule"] = A(trule, grule)
    g["cddl"] = C(S, Rep(C(N("rule"), S)))
    return g


class CfgEncoder:
    """Derivability of exact spans; repetition requires progress; same-span nonterminal
    cycles abort (the RFC grammar has none)."""

    def __init__(self, g, S, tag="d"):
        self.g = g
        self.S = S
        self.n = len(S)
        self.memo = {}
        self.inprog = set()
        self.defs = []
        self.cnt = 0
        self.tag = tag
        self.T, self.F = z3.BoolVal(True), z3.BoolVal(False)
        self.nullable_memo = {}

    def OR(self, xs):
        xs = [x for x in xs if not z3.is_false(x)]
        if any(z3.is_true(x) for x in xs):
            return self.T
        return self.F if not xs else (xs[0] if len(xs) == 1 else z3.Or(xs))

    def AND(self, xs):
        xs = [x for x in xs if not z3.is_true(x)]
        if any(z3.is_false(x) for x in xs):
            return self.F
        return self.T if not xs else (xs[0] if len(xs) == 1 else z3.And(xs))

    def name(self, b):
        if z3.is_true(b) or z3.is_false(b) or z3.is_const(b):
            return b
        self.cnt += 1
        v = z3.Bool(f"{self.tag}{self.cnt}")
        self.defs.append(v == b)
        return v

    def eq(self, i, b):
        c = self.S[i]
        if isinstance(c, int):
            return self.T if c == b else self.F
        return c == b

    def rng(self, i, lo, hi):
        c = self.S[i]
        if isinstance(c, int):
            return self.T if lo <= c <= hi else self.F
        return z3.And(z3.UGE(c, lo), z3.ULE(c, hi))

    def NOT(self, x):
        if z3.is_true(x):
            return self.F
        if z3.is_false(x):
            return self.T
        return z3.Not(x)

    def D(self, x, i, j):
        key = (id(x), i, j)
        if key in self.memo:
            return self.memo[key]
        S, n = self.S, self.n
        if isinstance(x, EOF):
            r = self.T if (i == j == n) else self.F
        elif isinstance(x, NotNext):
            if i != j:
                r = self.F
            elif i == n:
                r = self.T
            else:
                r = self.NOT(self.OR([self.rng(i, lo, hi) for lo, hi in x.ranges]))
        elif isinstance(x, NotAhead):
            if i != j:
                r = self.F
            else:
                r = self.NOT(self.OR([self.D(x.x, i, k) for k in range(i, n + 1)]))
        elif isinstance(x, R):
            r = self.rng(i, x.lo, x.hi) if j == i + 1 else self.F
        elif isinstance(x, L):
            bs = x.t.encode()
            if j - i != len(bs):
                r = self.F
            else:
                cs = []
                for k, b in enumerate(bs):
                    ch = chr(b)
                    if ch.isalpha() and not x.cs:
                        cs.append(self.OR([self.eq(i + k, ord(ch.lower())), self.eq(i + k, ord(ch.upper()))]))
                    else:
                        cs.append(self.eq(i + k, b))
                r = self.AND(cs)
        elif isinstance(x, N):
            if key in self.inprog:
                raise RuntimeError(f"same-span cycle through {x.n} at {i},{j}")
            self.inprog.add(key)
            r = self.D(self.g[x.n], i, j)
            self.inprog.discard(key)
        elif isinstance(x, A):
            r = self.OR([self.D(y, i, j) for y in x.xs])
        elif isinstance(x, C):
            r = self.cat(list(x.xs), i, j)
        elif isinstance(x, Rep):
            r = self.rep(x, x.lo, x.hi, i, j)
        else:
            raise TypeError(x)
        r = self.name(r)
        self.memo[key] = r
        return r

    def cat(self, xs, i, j):
        if not xs:
            return self.T if i == j else self.F
        if len(xs) == 1:
            return self.D(xs[0], i, j)
        key = ("cat", tuple(id(y) for y in xs), i, j)
        if key in self.memo:
            return self.memo[key]
        opts = []
        for k in range(i, j + 1):
            a = self.D(xs[0], i, k)
            if z3.is_false(a):
                continue
            opts.append(self.AND([a, self.cat(xs[1:], k, j)]))
        r = self.name(self.OR(opts))
        self.memo[key] = r
        return r

    def rep(self, x, lo, hi, i, j):
        key = ("rep", id(x.x), lo, hi, i, j)
        if key in self.memo:
            return self.memo[key]
        opts = []
        if i == j:
            # zero items, or `lo` items that each derive the empty span
            if lo == 0:
                opts.append(self.T)
            else:
                opts.append(self.D(x.x, i, i))
        if (hi is None or hi > 0) and j > i:
            nlo = max(lo - 1, 0)
            nhi = None if hi is None else hi - 1
            for k in range(i + 1, j + 1):
                a = self.D(x.x, i, k)
                if z3.is_false(a):
                    continue
                opts.append(self.AND([a, self.rep(x, nlo, nhi, k, j)]))
            # items deriving the empty span may also be interleaved; they never help reach
            # the lower bound unless all remaining required items are nullable, handled by
            # the i == j case reached through k == j above
        r = self.name(self.OR(opts))
        self.memo[key] = r
        return r

    def derives(self, start="cddl"):
        return self.D(self.g[start], 0, self.n)
