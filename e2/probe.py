#!/usr/bin/env python3-vt
"""Debug helper: probe.py <direction> <switch-to-turn-off|-> <shape-spec>   shape-spec: freeN | tpl:prefix|hole|suffix"""
import sys, os, json
sys.path.insert(0, os.path.join(os.path.dirname(os.path.abspath(__file__)), "..", "lib"))
import e2
direction, sw, spec = sys.argv[1:4]
k = int(sys.argv[4]) if len(sys.argv) > 4 else 5
rules = e2.build_pegdump(); ctl = e2.control_names(rules)
findings = e2.load_findings(); hi, lo = e2.switch_sets(findings)
if spec.startswith("free"):
    sh = e2.free(int(spec[4:].rstrip("u")), spec.endswith("u"))
else:
    pre, hole, suf = spec[4:].split("|")
    sh = e2.template("t", pre, int(hole), suf)
q = e2.Query(rules, ctl, sh)
sws = (hi if direction == "over" else lo) - {sw}
block = []
for _ in range(k):
    res, text, symvals, dt = q.ask(direction, sws, block)
    print(res, repr(text), round(dt, 2), (e2.parse_native([text])[0] if text and "E2_PEST_OVERRIDE" not in os.environ else ""))
    if res != "sat": break
    block.append(symvals)
