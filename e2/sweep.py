#!/usr/bin/env python3-vt
"""Exploration helper (not a registered check): run the proof queries (a) for every shape of a
tier and print SAT witnesses, without native replay. Usage: sweep.py C03 thorough [name-prefix]"""
import sys, os, time
sys.path.insert(0, os.path.join(os.path.dirname(os.path.abspath(__file__)), "..", "lib"))
import e2
pid, tier = sys.argv[1], sys.argv[2]
pref = sys.argv[3] if len(sys.argv) > 3 else ""
rules = e2.build_pegdump(); ctl = e2.control_names(rules)
findings = e2.load_findings(); hi, lo = e2.switch_sets(findings)
for sh in e2.shapes_for(pid, tier):
    if not sh.name.startswith(pref):
        continue
    t0 = time.time()
    q = e2.Query(rules, ctl, sh)
    out = []
    for direction, sw in (("over", hi), ("under", lo)):
        res, text, symvals, dt = q.ask(direction, sw)
        out.append(f"{direction}={res}{' ' + repr(text) if text else ''} ({dt:.1f}s)")
    print(f"{sh.name:14s} enc {q.encode_peg_s:.1f}s  " + "  ".join(out) + f"  total {time.time()-t0:.0f}s", flush=True)
