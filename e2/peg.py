"""E2, PEG side: bounded SAT encoding of pest's matching semantics for the optimised rule set
that `pest_meta::parse_and_optimize` produces from /repo/cddl.pest (dumped by /verif/pegdump).

For every (expression, atomicity, start position i) the encoder builds a map j -> Bool:
"matches from i and ends at j". PEG matching is deterministic, so "fails" is the negation of
the disjunction of all ends. Implicit trivia (WHITESPACE / COMMENT skipping between sequence
operands and repetition steps of non-atomic rules) follows pest_generator::generator.

Alphabet: bytes. With utf8=False every byte must be < 0x80. With utf8=True the string is
additionally allowed to contain 2-byte UTF-8 scalars (U+0080..U+07FF) and `ANY` / negated
look-ahead + ANY idioms consume a whole scalar.
"""
import z3

TRUE, FALSE = z3.BoolVal(True), z3.BoolVal(False)


def Or(xs):
    xs = [x for x in xs if not z3.is_false(x)]
    if any(z3.is_true(x) for x in xs):
        return TRUE
    return FALSE if not xs else (xs[0] if len(xs) == 1 else z3.Or(xs))


def And(*xs):
    xs = [x for x in xs if not z3.is_true(x)]
    if any(z3.is_false(x) for x in xs):
        return FALSE
    return TRUE if not xs else (xs[0] if len(xs) == 1 else z3.And(xs))


def Not(x):
    if z3.is_true(x):
        return FALSE
    if z3.is_false(x):
        return TRUE
    return z3.Not(x)


class Unsupported(Exception):
    pass


class PegEncoder:
    def __init__(self, rules, S, utf8=False, tag="p"):
        self.R = {r["name"]: r for r in rules}
        self.S = S
        self.N = len(S)
        self.utf8 = utf8
        self.memo = {}
        self.defs = []
        self.fresh = 0
        self.tag = tag
        self.nodes = 0

    # -- helpers (positions holding a Python int are concrete: comparisons fold)
    def eq(self, i, b):
        c = self.S[i]
        if isinstance(c, int):
            return TRUE if c == b else FALSE
        return c == b

    def rng(self, i, lo, hi):
        c = self.S[i]
        if isinstance(c, int):
            return TRUE if lo <= c <= hi else FALSE
        return z3.And(z3.UGE(c, lo), z3.ULE(c, hi))

    def name_it(self, b, tag="n"):
        if z3.is_true(b) or z3.is_false(b) or z3.is_const(b):
            return b
        self.fresh += 1
        v = z3.Bool(f"{self.tag}_{tag}_{self.fresh}")
        self.defs.append(v == b)
        return v

    def fails(self, res):
        return Not(Or(list(res.values())))

    def seq2(self, ra, fb):
        out = {}
        for j, cj in ra.items():
            if z3.is_false(cj):
                continue
            for k, ck in fb(j).items():
                out.setdefault(k, []).append(And(cj, ck))
        return {k: Or(v) for k, v in out.items()}

    def lit(self, s, i, insens=False):
        bs = s.encode()
        if i + len(bs) > self.N:
            return {}
        conds = []
        for k, b in enumerate(bs):
            ch = chr(b)
            if insens and ch.isascii() and ch.isalpha():
                conds.append(Or([self.eq(i + k, ord(ch.lower())), self.eq(i + k, ord(ch.upper()))]))
            else:
                conds.append(self.eq(i + k, b))
        return {i + len(bs): And(*conds)}

    def any_char(self, i):
        """pest ANY: one Unicode scalar."""
        if i >= self.N:
            return {}
        out = {i + 1: self.rng(i, 0, 0x7F)}
        if self.utf8 and i + 1 < self.N:
            out[i + 2] = self.rng(i, 0xC2, 0xDF)  # continuation constrained globally
        return out

    def builtin(self, name, i):
        if name == "SOI":
            return {i: TRUE} if i == 0 else {}
        if name == "EOI":
            return {i: TRUE} if i == self.N else {}
        if i >= self.N:
            return {}
        rng = lambda lo, hi: self.rng(i, lo, hi)
        if name == "ANY":
            return self.any_char(i)
        if name == "ASCII_HEX_DIGIT":
            return {i + 1: Or([rng(48, 57), rng(65, 70), rng(97, 102)])}
        if name == "ASCII_BIN_DIGIT":
            return {i + 1: rng(48, 49)}
        if name == "ASCII_NONZERO_DIGIT":
            return {i + 1: rng(49, 57)}
        if name == "ASCII_DIGIT":
            return {i + 1: rng(48, 57)}
        if name == "ASCII_ALPHA":
            return {i + 1: Or([rng(65, 90), rng(97, 122)])}
        if name == "ASCII_ALPHANUMERIC":
            return {i + 1: Or([rng(48, 57), rng(65, 90), rng(97, 122)])}
        raise Unsupported(f"built-in rule {name}")

    def skip(self, i, atomic):
        if atomic:
            return {i: TRUE}
        key = ("skip", i)
        if key in self.memo:
            return self.memo[key]
        has_ws = "WHITESPACE" in self.R
        has_cm = "COMMENT" in self.R
        if not has_ws and not has_cm:
            r = {i: TRUE}
        else:
            def ws_star(p):
                if not has_ws:
                    return {p: TRUE}
                return self.rep(lambda q: self.rule("WHITESPACE", q, False), p, ("wsstar", p))

            def cm_ws(p):
                return self.seq2(self.rule("COMMENT", p, False), ws_star)

            if has_cm:
                r = self.seq2(ws_star(i), lambda p: self.rep(cm_ws, p, ("cmws", p)))
            else:
                r = ws_star(i)
        r = {k: self.name_it(v, f"skip{i}_{k}") for k, v in r.items()}
        self.memo[key] = r
        return r

    def rep(self, f, i, key):
        """Greedy repetition of f; an iteration that does not advance ends the loop
        (pest's grammar validator rejects non-progressing repetitions)."""
        key = ("rep", key)
        if key in self.memo:
            return self.memo[key]
        r = f(i)
        out = {i: [self.fails(r)]}
        for j, cj in r.items():
            if j <= i or z3.is_false(cj):
                continue
            for k, ck in self.rep(f, j, (key[1], j)).items():
                out.setdefault(k, []).append(And(cj, ck))
        res = {k: self.name_it(Or(v), "rep") for k, v in out.items()}
        self.memo[key] = res
        return res

    def rule(self, name, i, atomic):
        if name not in self.R:
            return self.builtin(name, i)
        r = self.R[name]
        ty = r["ty"]
        if ty in ("atomic", "compound"):
            inner_atomic = True
        elif ty == "nonatomic":
            inner_atomic = False
        elif name in ("WHITESPACE", "COMMENT"):
            inner_atomic = True
        else:
            inner_atomic = atomic
        key = ("rule", name, i, inner_atomic)
        if key in self.memo:
            return self.memo[key]
        # implicit skips are emitted for normal/silent/non-atomic rule bodies and are no-ops
        # at run time while the dynamic atomicity is atomic
        static_skip = ty in ("normal", "silent", "nonatomic") and name not in ("WHITESPACE", "COMMENT")
        self.memo[key] = None  # left-recursion sentinel
        res = self.ev(r["expr"], i, inner_atomic, static_skip, (name,))
        res = {k: self.name_it(v, f"{name}_{i}_{k}") for k, v in res.items()}
        self.memo[key] = res
        return res

    def ev(self, e, i, atomic, sskip, path):
        self.nodes += 1
        k = e["k"]
        do_skip = sskip and not atomic
        if k == "str":
            return self.lit(e["s"], i)
        if k == "insens":
            return self.lit(e["s"], i, True)
        if k == "range":
            if i >= self.N:
                return {}
            a, b = ord(e["a"]), ord(e["b"])
            if a > 0x7F or b > 0x7F:
                raise Unsupported("non-ASCII character range")
            return {i + 1: self.rng(i, a, b)}
        if k == "ident":
            r = self.rule(e["s"], i, atomic)
            if r is None:
                raise Unsupported(f"left recursion through {e['s']}")
            return r
        if k == "pos":
            r = self.ev(e["e"], i, atomic, sskip, path + ("p",))
            return {i: Not(self.fails(r))}
        if k == "neg":
            r = self.ev(e["e"], i, atomic, sskip, path + ("n",))
            return {i: self.fails(r)}
        if k == "seq":
            ra = self.ev(e["a"], i, atomic, sskip, path + ("a",))
            if do_skip:
                ra = self.seq2(ra, lambda j: self.skip(j, False))
            return self.seq2(ra, lambda j: self.ev(e["b"], j, atomic, sskip, path + ("b",)))
        if k == "choice":
            ra = self.ev(e["a"], i, atomic, sskip, path + ("a",))
            rb = self.ev(e["b"], i, atomic, sskip, path + ("b",))
            fa = self.fails(ra)
            out = {j: [c] for j, c in ra.items()}
            for j, c in rb.items():
                out.setdefault(j, []).append(And(fa, c))
            return {j: Or(v) for j, v in out.items()}
        if k == "opt":
            r = self.ev(e["e"], i, atomic, sskip, path + ("o",))
            out = dict(r)
            out[i] = Or([out.get(i, FALSE), self.fails(r)])
            return out
        if k == "rep":
            body = lambda p: self.ev(e["e"], p, atomic, sskip, path + ("r",))
            if not do_skip:
                return self.rep(body, i, (path, atomic, i))
            # generator: optional(e ~ (skip ~ e)*) with the skip rewound when e fails after it
            first = body(i)
            more = lambda p: self.seq2(self.skip(p, False), body)
            r = self.seq2(first, lambda p: self.rep(more, p, (path, "more", p)))
            out = dict(r)
            out[i] = Or([out.get(i, FALSE), self.fails(first)])
            return out
        if k == "skip":
            # optimizer node Skip(strings): advance char by char until one of the strings
            # matches at the position; fails if none ever does
            out = {}
            notyet = TRUE
            for j in range(i, self.N):
                alts = []
                for s in e["v"]:
                    l = self.lit(s, j)
                    alts.append(list(l.values())[0] if l else FALSE)
                here = Or(alts)
                out[j] = And(notyet, here)
                notyet = And(notyet, Not(here))
            # pest's skip_until never fails: without a match it stops at end of input
            out[self.N] = notyet
            return out
        if k == "restore":
            return self.ev(e["e"], i, atomic, sskip, path + ("x",))
        raise Unsupported(f"expression kind {k}")

    def accept(self, entry="cddl"):
        r = self.rule(entry, 0, False)
        return r.get(self.N, FALSE)

    def rule_span(self, name, i, j, atomic=True):
        """`name` matches exactly S[i:j] when started at i (used for token-rule lemmas)."""
        return self.rule(name, i, atomic).get(j, FALSE)


def alphabet_constraints(S, utf8, allow_controls=True):
    """Which byte strings are in scope: ASCII (optionally without most C0 controls), plus
    well-formed 2-byte UTF-8 scalars when utf8 is set."""
    cs = []
    n = len(S)
    for i, c in enumerate(S):
        if isinstance(c, int):
            continue
        ascii_ok = z3.ULT(c, 0x80) if allow_controls else z3.Or(z3.And(z3.UGE(c, 0x20), z3.ULE(c, 0x7E)), c == 9, c == 10, c == 13)
        if not utf8:
            cs.append(ascii_ok)
            continue
        lead = z3.And(z3.UGE(c, 0xC2), z3.ULE(c, 0xDF))
        cont = z3.And(z3.UGE(c, 0x80), z3.ULE(c, 0xBF))
        def _r(k, lo, hi):
            if k < 0 or k >= n:
                return z3.BoolVal(False)
            if isinstance(S[k], int):
                return z3.BoolVal(lo <= S[k] <= hi)
            return z3.And(z3.UGE(S[k], lo), z3.ULE(S[k], hi))
        prev_lead = _r(i - 1, 0xC2, 0xDF)
        next_cont = _r(i + 1, 0x80, 0xBF)
        cs.append(z3.Or(ascii_ok, z3.And(lead, next_cont), z3.And(cont, prev_lead)))
        cs.append(z3.Implies(cont, prev_lead))
    return cs
