#!/usr/bin/env python3
"""Exploration helper (not a registered check): enumerate discrepancy witnesses for a length."""
import json, sys, time, subprocess
import z3
import peg, abnf

N = int(sys.argv[1]); K = int(sys.argv[2]) if len(sys.argv) > 2 else 10
utf8 = '--utf8' in sys.argv
hi_off = [a[5:] for a in sys.argv if a.startswith('--hi-')]
lo_off = [a[5:] for a in sys.argv if a.startswith('--lo-')]
rules = json.load(open('/tmp/peg.json'))
def names(e):
    return [e['s']] if e['k'] == 'str' else names(e['a']) + names(e['b'])
ctl = names([r for r in rules if r['name'] == 'control_name'][0]['expr'])
HI = {'L_tab','L_final_comment','L_hquoted','L_hash_type','DC_radix_mantissa','DC_qualifier_case',
      'F_comment_any_char','F_bare_cr_whitespace','F_escape_no_scalar','F_text_control_chars','F_bytes_any_char','F_headnum_space','F_tag_any_major','F_socket_space','F_tag_space','F_generic_space','F_ctl_space','F_memberkey_generic'} - set(hi_off)
LO = {'F_dollar_id','F_star_then_digit','F_top_level_group_rule','F_bytes_backslash_restricted','F_id_multi_punct','F_maximal_munch','F_prefixed_bytes_key','F_paren_type_in_group','F_cborseq_shadowed'} - set(lo_off)
S = [z3.BitVec(f"c{i}", 8) for i in range(N)]
t0 = time.time()
pe = peg.PegEncoder(rules, S, utf8=utf8)
acc = pe.accept()
hi = abnf.CfgEncoder(abnf.make_grammar(HI, ctl, utf8), S, 'h'); dhi = hi.derives()
lo = abnf.CfgEncoder(abnf.make_grammar(LO, ctl, utf8), S, 'l'); dlo = lo.derives()
print("encode", round(time.time()-t0,1), len(pe.defs), len(hi.defs), len(lo.defs))
for label, q in (("OVER: PEG accepts, D_hi does not derive", z3.And(acc, z3.Not(dhi))), ("UNDER: D_lo derives, PEG rejects", z3.And(z3.Not(acc), dlo))):
    s = z3.Solver(); s.add(pe.defs); s.add(hi.defs); s.add(lo.defs)
    s.add(peg.alphabet_constraints(S, utf8))
    s.add(q)
    print("==", label)
    for _ in range(K):
        t1 = time.time(); r = s.check()
        if r != z3.sat: print(r, round(time.time()-t1, 2)); break
        m = s.model(); b = bytes(m.eval(c, model_completion=True).as_long() for c in S)
        print(repr(b), round(time.time()-t1, 2))
        def cls(c, x):
            if chr(x).isalpha(): return z3.Or(z3.And(z3.UGE(c,65),z3.ULE(c,90)),z3.And(z3.UGE(c,97),z3.ULE(c,122)))
            if chr(x).isdigit(): return z3.And(z3.UGE(c,48),z3.ULE(c,57))
            if x in (9,10,13,32): return z3.Or(c==9,c==10,c==13,c==32)
            return c == x
        s.add(z3.Not(z3.And([cls(c, x) for c, x in zip(S, b)])))
