#!/usr/bin/env python3
"""Prints the per-property harness tables for DESIGN.md from lib/harnesses.py and the last evidence files."""
import json, os, sys
sys.path.insert(0, os.path.dirname(os.path.abspath(__file__)))
import harnesses, props
V = os.path.join(os.path.dirname(os.path.abspath(__file__)), "..")
times = {}
for pid in props.CLAIMED:
    p = os.path.join(V, "evidence", "thorough", pid + ".json")
    if not os.path.exists(p):
        p = os.path.join(V, "evidence", pid + ".json")
    if os.path.exists(p):
        e = json.load(open(p))
        for h in e["coverage"]["engines"].get("E1", {}).get("harnesses", []):
            if h["status"] == "success" and h["cbmc_time_s"]:
                times[h["harness"]] = (h["cbmc_time_s"], h["program_steps"], h["sat_vars"])
for pid in sorted(props.CLAIMED):
    hs = [h for h in harnesses.H if pid in h["props"]]
    hs.sort(key=lambda h: {"quick": 0, "thorough": 1, "unreached": 2}[h["tier"] if not (pid in h.get("quick_for", [])) else "quick"])
    if not hs:
        continue
    print(f"**{pid}** — E1 harnesses\n")
    print("| harness | tier | unit | bound | CBMC s (steps) |")
    print("|---|---|---|---|---|")
    for h in hs:
        t = times.get(h["name"])
        ts = f"{t[0]:.0f} ({t[1]})" if t else "—"
        kf = f" *(isolates {h['finding']})*" if h.get("finding") else ""
        tier = "quick" if (h["tier"] == "quick" or pid in h.get("quick_for", [])) else h["tier"]
        if tier == "unreached":
            ts = "not run: " + h.get("unreached_because", "")
        print(f"| `{h['name']}`{kf} | {tier} | {'; '.join(h['unit'])[:110]} | {h['bound'][:150]} | {ts} |")
    print()
