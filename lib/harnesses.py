"""Harness table for E1 (Kani). One entry per #[kani::proof] function in /verif/kani/src.

props   : properties whose check runs this harness
tier    : 'quick' (both tiers) or 'thorough' (thorough tier only)
cost    : rough CBMC seconds on an idle machine (scheduling order only)
unit    : real functions executed symbolically
bound   : what is symbolic and how large
stubs   : contract stubs / environment assumptions that are part of the claim
finding : id in known_findings.json when the harness isolates a known defect
api     : optional public-API confirmation: (kind, fn(vals) -> args)
"""


def _u8s(vals, start, n):
    return [v[0] for v in vals[start:start + n]]


def _usize(vals, i):
    return int.from_bytes(bytes(vals[i]), "little") if i < len(vals) else 0


def _bytes_with_len(nbytes):
    """harness draws `p: [u8; nbytes]` then `n: usize`; input = p[..n]"""
    def f(vals):
        p = _u8s(vals, 0, nbytes)
        p += [0] * (nbytes - len(p))
        n = min(_usize(vals, nbytes), nbytes)
        return {"bytes": p[:n]}
    return f


CV = "cddl::validator::cbor_value"
PB = "cddl::pest_bridge"
CB = "cddl::validator::cbor"

_CB_STUBS_FWD = ["alloc::fmt::format -> fresh one-character string (message text never decides a verdict)",
                 "std::hash::RandomState::new -> fixed state", "dependency stub set (kani/src/stubs.rs), as for the visitor-callback harnesses"]

H = [
    # ------------------------------------------------------------------ C11
    dict(name="c11_l0_pull_head", props=["C11"], tier="quick", cost=35,
         unit=["ciborium_ll::Decoder::<&[u8]>::pull"],
         bound="9 symbolic bytes, symbolic length 0..=9 (every CBOR head and every truncation of it)",
         stubs=[], api=("decode_cbor_head", None)),
    dict(name="c11_l1_dispatch9", props=["C11", "C02"], tier="quick", cost=190, timeout_quick=900,
         unit=[CV + "::decode_value::<&[u8]>", "ciborium_ll::Decoder::pull", "ciborium::value::Integer::try_from(i128)"],
         bound="9 symbolic bytes, symbolic length 0..=9, first head not a tag, not `f8 xx<32`; unwind 2",
         stubs=["read_bytes/read_text/decode_array/decode_map replaced by nondeterministic Ok(empty)/Err (contract stubs): "
                "string and container *contents* are decided by the L2/L3 harnesses"],
         api=("decode_cbor", _bytes_with_len(9))),
    dict(name="c11_l1_two_byte_simple", props=["C11"], tier="quick", cost=2,
         unit=[CV + "::decode_value::<&[u8]>"], bound="`f8 xx`, xx symbolic < 32", stubs=[],
         api=("decode_cbor_strict", lambda vals: {"bytes": [0xf8] + _u8s(vals, 0, 1)})),
    dict(name="c11_l1_tag", props=["C11"], tier="quick", cost=120, timeout_quick=900,
         unit=[CV + "::decode_value::<&[u8]> (one level of recursion)"],
         bound="10 symbolic bytes, symbolic length 0..=10, first head a tag (1..=9 head bytes) followed by one item head; unwind 3",
         stubs=["string/container callees stubbed as in c11_l1_dispatch9"],
         api=("decode_cbor", _bytes_with_len(10))),
    dict(name="c11_l2_bytes_def1", props=["C11"], tier="quick", cost=2, unit=[CV + "::read_bytes::<&[u8]>"],
         bound="definite length 1, payload symbolic, 0..=2 bytes available", stubs=[]),
    dict(name="c11_l2_bytes_def2", props=["C11"], tier="quick", cost=2, unit=[CV + "::read_bytes::<&[u8]>"],
         bound="definite length 2, payload symbolic, 0..=3 bytes available", stubs=[]),
    dict(name="c11_l2_bytes_def4", props=["C11"], tier="quick", cost=4, unit=[CV + "::read_bytes::<&[u8]>"],
         bound="definite length 4, payload symbolic, 0..=5 bytes available", stubs=[]),
    dict(name="c11_l2_text_def1", props=["C11"], tier="quick", cost=3, unit=[CV + "::read_text::<&[u8]>", "String::from_utf8"],
         bound="definite length 1, payload symbolic", stubs=[]),
    dict(name="c11_l2_text_def2", props=["C11"], tier="quick", cost=9, unit=[CV + "::read_text::<&[u8]>", "String::from_utf8"],
         bound="definite length 2, payload symbolic (all 2-byte sequences vs RFC 3629)", stubs=[]),
    dict(name="c11_l2_text_def3", props=["C11"], tier="quick", cost=8, unit=[CV + "::read_text::<&[u8]>", "String::from_utf8"],
         bound="definite length 3, payload symbolic (incl. surrogates ED A0..BF, overlongs E0 80..9F)", stubs=[]),
    dict(name="c11_l2_text_def4", props=["C11"], tier="quick", cost=20, unit=[CV + "::read_text::<&[u8]>", "String::from_utf8"],
         bound="definite length 4, payload symbolic (incl. F0 80..8F overlongs, F4 90.. > U+10FFFF)", stubs=[]),
    dict(name="c11_l2_bytes_indef", unreached_because="ran out of 14 GB after 24 min", props=["C11"], tier="unreached", cost=600,
         unit=[CV + "::read_bytes::<&[u8]> (indefinite)"],
         bound="5 symbolic bytes after a 0x5f head, chunk heads one-byte with length ≤ 1, symbolic available length", stubs=[]),
    dict(name="c11_l2_text_indef_1_1", unreached_because="ran out of 14 GB after 29 min", props=["C11"], tier="unreached", cost=1800, unit=[CV + "::read_text::<&[u8]> (indefinite)"],
         bound="frame 61 a 61 b ff with a, b symbolic (two chunks of one byte)", stubs=[]),
    dict(name="c11_l2_indef_framing", unreached_because="ran out of 14 GB after 21 min", props=["C11"], tier="unreached", cost=1800, unit=[CV + "::read_text/read_bytes::<&[u8]> (indefinite)"],
         bound="3 symbolic chunk heads from {40,60,5f,7f,ff,00,80}, symbolic available length", stubs=[]),
    dict(name="c11_l3_array_indef_nested_break", unreached_because="ran out of 14 GB after 23 min", props=["C11"], tier="unreached", cost=1800, unit=[CV + "::decode_array::<&[u8]> (indefinite)", CV + "::decode_value"],
         bound="3 symbolic bytes from {01,f6,c1,81,ff} after a 9f head", stubs=[]),
    # ------------------------------------------------------------------ C07
    dict(name="c07_u64_dec5", props=["C07"], tier="quick", cost=30, unit=[PB + "::parse_u64_lit", PB + "::parse_uint_lit", "u64::from_str"],
         bound="decimal uint, 1..=5 symbolic digits", stubs=[]),
    dict(name="c07_u64_hex4", props=["C07"], tier="quick", cost=30, unit=[PB + "::parse_u64_lit", "u64::from_str_radix(16)"],
         bound="0x/0X + 1..=4 symbolic hex digits, both cases", stubs=[]),
    dict(name="c07_u64_bin6", props=["C07"], tier="quick", cost=30, unit=[PB + "::parse_u64_lit", "u64::from_str_radix(2)"],
         bound="0b/0B + 1..=6 symbolic binary digits", stubs=[]),
    dict(name="c07_int_neg_dec4", props=["C07"], tier="quick", cost=30, unit=[PB + "::parse_int_lit"],
         bound="'-' + 1..=4 symbolic decimal digits", stubs=[]),
    dict(name="c07_u64_window_2p64", props=["C07"], tier="quick", cost=60, unit=[PB + "::parse_u64_lit"],
         bound="\"18446744073709551\"+3 symbolic digits (window around 2^64)", stubs=[]),
    dict(name="c07_int_window_2p63", props=["C07"], tier="quick", cost=60, unit=[PB + "::parse_int_lit"],
         bound="[-]\"9223372036854775\"+3 symbolic digits (windows around ±2^63)", stubs=[]),
    dict(name="c07_u64_window_hex", props=["C07"], tier="quick", cost=60, unit=[PB + "::parse_u64_lit", PB + "::parse_int_lit"],
         bound="0xffffffffffffff+2 symbolic digits; 17-digit hex; -0x800000000000000+1 symbolic digit", stubs=[]),
    dict(name="c07_hex_decode4", props=["C07"], tier="quick", cost=20, unit=[PB + "::hex_decode", "data_encoding::HEXLOWER_PERMISSIVE"],
         bound="0..=4 symbolic bytes (any byte values)", stubs=[]),
    dict(name="c07_b64_2", unreached_because="no result in 7 min (data_encoding base64)", props=["C07"], tier="unreached", cost=900, unit=[PB + "::base64_decode", "data_encoding::BASE64*"],
         bound="2 symbolic bytes (any byte values)", stubs=[]),
    dict(name="c07_b64_3", unreached_because="data_encoding base64 is out of reach (smaller inputs did not finish)", props=["C07"], tier="unreached", cost=600, unit=[PB + "::base64_decode"],
         bound="3 symbolic bytes (any byte values)", stubs=[]),
    dict(name="c07_b64_pad4", unreached_because="data_encoding base64 is out of reach (smaller inputs did not finish)", props=["C07"], tier="unreached", cost=600, unit=[PB + "::base64_decode"],
         bound="xy== / xyz= with x,y,z symbolic", stubs=[]),
    dict(name="c07_clean3", unreached_because="ran out of 14 GB after 4 min (String growth)", props=["C07"], tier="unreached", cost=600, unit=[PB + "::clean_prefixed_byte_string"],
         bound="0..=3 symbolic ASCII bytes (VT/FF excluded as don't-care)", stubs=[]),
    dict(name="c07_b64_padforms", unreached_because="no result in 10 min on a nearly concrete input", props=["C07"], tier="unreached", cost=1800, unit=[PB + "::base64_decode"],
         bound="\"QQ\" + two characters from {=, A}", stubs=[]),
    dict(name="c07_b64_4small", unreached_because="no result in 15 min", props=["C07"], tier="unreached", cost=1800, unit=[PB + "::base64_decode"],
         bound="4 characters from the alphabet {=, A, g, /, _, Q}", stubs=[]),
    # ------------------------------------------------------------------ C15
    dict(name="c15_error_range_ascii6", props=["C15", "C05"], tier="quick", cost=30,
         unit=[PB + "::compute_error_range", PB + "::scan_token_end", PB + "::scan_token_start"],
         bound="ASCII input 0..=6 symbolic bytes, symbolic index ≤ len", stubs=[]),
    dict(name="c15_convert_error_ascii4", unreached_because="no result in 15 min on 2 symbolic bytes (pest Error::new_from_pos)", props=["C15"], tier="unreached", cost=1800,
         unit=[PB + "::convert_pest_error", "pest::error::Error::new_from_pos", PB + "::compute_error_range"],
         bound="ASCII input 0..=2 symbolic bytes, symbolic error position",
         stubs=["create_enhanced_error_message (message text only) stubbed to an empty message"]),
    dict(name="c15_error_range_utf8_boundary", props=["C15"], tier="quick", cost=12,
         unit=[PB + "::compute_error_range", PB + "::scan_token_end"],
         bound="2..=5 bytes, one 2-byte scalar at a symbolic position, rest ASCII, index on a char boundary",
         stubs=[]),
    dict(name="c15_scan_bounds6", props=["C15", "C05"], tier="quick", cost=20,
         unit=[PB + "::scan_token_end", PB + "::scan_token_start"], bound="1..=6 symbolic bytes, symbolic position", stubs=[]),
    dict(name="c15_span_to_position4", props=["C15"], tier="quick", cost=10,
         unit=[PB + "::pest_span_to_position", "pest::Span::new"],
         bound="0..=4 symbolic bytes (ASCII incl. LF/CR, optional 2-byte scalar first), symbolic span on char boundaries", stubs=[]),
    dict(name="c15_span_to_ast_span4", props=["C15"], tier="quick", cost=10,
         unit=[PB + "::pest_span_to_ast_span", "pest::Span::new"],
         bound="0..=4 symbolic bytes (ASCII incl. LF/CR, optional 2-byte scalar first), symbolic span on char boundaries", stubs=[]),
    dict(name="c15_position_from_ast_span3", props=["C15"], tier="thorough", cost=1800,
         unit=[PB + "::position_from_ast_span"],
         bound="0..=3 symbolic bytes (ASCII incl. LF/CR, optional 2-byte scalar first), symbolic span", stubs=[]),
    # ------------------------------------------------------------------ C10
    dict(name="c10_kuhn_2x2", props=["C10"], tier="quick", cost=30,
         unit=[CB + "::CBORValidator::augment_single_entry_assignment"],
         bound="every 2x2 compatibility matrix; assignment loop as in try_reassign_failed_single_entries; unwind 3", stubs=[]),
    dict(name="c10_kuhn_3x3", unreached_because="ran out of 14 GB after 5 min (3.5 M program steps)", props=["C10"], tier="unreached", cost=900,
         unit=[CB + "::CBORValidator::augment_single_entry_assignment"], bound="every 3x3 compatibility matrix; unwind 4", stubs=[]),
    dict(name="c10_ledger3", props=["C10"], tier="quick", cost=60,
         unit=[CB + "::CBORValidator::find_unconsumed_map_entry", CB + "::CBORValidator::collect_unconsumed_map_entries_matching",
               CB + "::CBORValidator::is_unconsumed_map_entry"],
         bound="3 entries with symbolic (possibly equal) keys, symbolic ledger of ≤ 2 claimed indices, symbolic wanted key", stubs=[]),
    dict(name="c10_ledger_wide", unreached_because="no result in 60 min", props=["C10"], tier="unreached", cost=1800,
         unit=[CB + "::CBORValidator::collect_unconsumed_map_entries_matching", CB + "::CBORValidator::find_unconsumed_map_entry"],
         bound="66 entries, one claimed index symbolic in 0..66", stubs=[]),
    # ------------------------------------------------------------------ C09 / C02
    dict(name="c09_prelude_int_uint_nint", props=["C09", "C02"], tier="quick", cost=40,
         unit=[CB + "::numeric_ident_matches_cbor_value", "cddl::validator::ident_numeric_kind", "is_ident_uint/nint_data_type", "token::lookup_ident"],
         bound="Value::Integer over −2^64…2^64−1 (symbolic i128); names uint, nint, int; schema without alias rules", stubs=[]),
    dict(name="c09_prelude_integer_unsigned_number", props=["C09", "C02"], tier="quick", cost=40,
         unit=[CB + "::numeric_ident_matches_cbor_value"], bound="Value::Integer over −2^64…2^64−1; names integer, unsigned, number", stubs=[]),
    dict(name="c09_prelude_int_not_float", props=["C09"], tier="quick", cost=80,
         unit=[CB + "::numeric_ident_matches_cbor_value"], bound="Value::Integer over −2^64…2^64−1; six float names, tstr, bool, bstr, nil", stubs=[]),
    dict(name="c09_prelude_float_side", props=["C09", "C02"], tier="quick", cost=80,
         unit=[CB + "::numeric_ident_matches_cbor_value"], bound="Value::Float with symbolic bits; 12 numeric names", stubs=[]),
    dict(name="c09_prelude_non_numeric_values", props=["C09"], tier="quick", cost=30,
         unit=[CB + "::numeric_ident_matches_cbor_value"], bound="Null / Bool / Simple(symbolic)", stubs=[]),
    dict(name="c09_prelude_bignum", props=["C09", "C02"], tier="quick", cost=10,
         unit=[CB + "::is_bignum_value", "cddl::validator::ident_accepts_bignum_tag"], bound="symbolic tag number (u64), bytes / non-bytes content", stubs=[]),
    dict(name="c09_prelude_classes", props=["C09"], tier="quick", cost=10,
         unit=["cddl::validator::ident_numeric_kind", "ident_matches_bool_value", "is_ident_{bool,null,string,byte_string}_data_type"],
         bound="prelude names, symbolic bool", stubs=[]),
    dict(name="c02_token_value_int", props=["C02"], tier="quick", cost=10, unit=[CB + "::token_value_into_cbor_value"],
         bound="symbolic usize / isize / f64 bits", stubs=[]),
    # ------------------------------------------------------------------ C13
    dict(name="c13_coerce3", props=["C13"], tier="quick", cost=30, unit=["cddl::validator::csv_validator::coerce_field", "u64::from_str", "i64::from_str"],
         bound="field of 0..=3 symbolic ASCII bytes", stubs=["<f64 as FromStr>::from_str replaced by its documented grammar contract; value nondeterministic (finite or not)"]),
    dict(name="c13_coerce_int_value", props=["C13"], tier="quick", cost=30, unit=["cddl::validator::csv_validator::coerce_field"],
         bound="[-]ddd, 3 symbolic digits", stubs=["f64::from_str contract stub"]),
    dict(name="c13_coerce_overflow_windows", props=["C13"], tier="quick", cost=60, unit=["cddl::validator::csv_validator::coerce_field"],
         bound="\"1844674407370955161\"+d and \"-922337203685477580\"+d, d symbolic", stubs=["f64::from_str contract stub"]),
    # ------------------------------------------------------------------ C06
    dict(name="c06_text_render_plain2", props=["C06"], tier="quick", cost=30, unit=["<cddl::token::Value as Display>::fmt (TEXT)"],
         bound="text of 0..=2 symbolic printable ASCII bytes without '\"' and '\\'", stubs=[]),
    dict(name="c06_text_render_special2", props=["C06"], tier="quick", cost=30, unit=["<cddl::token::Value as Display>::fmt (TEXT)"],
         bound="text of 1..=2 symbolic printable ASCII bytes, at least one '\"' or '\\'", stubs=[], finding="KF-C06-text-not-escaped"),
    dict(name="c06_b16_roundtrip2", unreached_because="no result in 7 min", props=["C06"], tier="unreached", cost=900, unit=["<cddl::token::ByteValue as Display>::fmt (B16)", PB + "::hex_decode"],
         bound="0..=2 symbolic bytes", stubs=[]),
    dict(name="c06_b64_roundtrip1", unreached_because="no result in 7 min", props=["C06"], tier="unreached", cost=900, unit=["<cddl::token::ByteValue as Display>::fmt (B64)", PB + "::base64_decode"],
         bound="1 symbolic byte", stubs=[]),
    dict(name="c06_uint_roundtrip2", props=["C06"], tier="quick", cost=15, unit=["<cddl::token::Value as Display>::fmt (UINT)", PB + "::parse_uint_lit"],
         bound="0 ≤ u < 100", stubs=[]),
    dict(name="c06_b16_roundtrip1", unreached_because="no result in 10 min (data_encoding through fmt::Formatter)", props=["C06"], tier="unreached", cost=1800, unit=["<cddl::token::ByteValue as Display>::fmt (B16)", PB + "::hex_decode"],
         bound="1 symbolic byte", stubs=[]),
    dict(name="c06_occur_render", unreached_because="ran out of 14 GB after 2 min (integer formatting)", props=["C06"], tier="unreached", cost=1800, unit=["<cddl::ast::Occur as Display>::fmt", PB + "::parse_uint_lit"],
         bound="Occur::Exact with optional bounds < 100", stubs=[]),
    # ------------------------------------------------------------------ C03 (E1 part)
    dict(name="c03_control_table", props=["C03"], tier="quick", cost=150, unit=["cddl::token::lookup_control_from_str", "<cddl::token::ControlOperator as Display>::fmt"],
         bound="index symbolic over the 37 registered control names", stubs=[]),
    # ------------------------------------------------------------------ C05
    dict(name="c05_alloc_read_bytes", props=["C05"], tier="quick", cost=2, unit=[CV + "::read_bytes::<&[u8]>"],
         bound="announced length n fully symbolic usize ≥ 2, 1-byte reader", stubs=[]),
    dict(name="c05_alloc_array_map", props=["C05"], tier="quick", cost=2, unit=[CV + "::decode_array::<&[u8]>", CV + "::decode_map::<&[u8]>"],
         bound="announced count n fully symbolic usize ≥ 1, empty reader", stubs=[]),
    dict(name="c05_literal_decoders_total", props=["C05"], tier="quick", cost=60, unit=[PB + "::parse_u64_lit", PB + "::parse_int_lit", PB + "::parse_uint_lit"],
         bound="any ASCII text of 0..=4 symbolic bytes (not only grammar-valid spellings)", stubs=[]),
    dict(name="c05_cbor_bits_bytes0_total", props=["C05"], tier="quick", cost=25,
         unit=["<" + CB + "::CBORValidator as Visitor>::visit_value (byte-string arm, control state .bits)", "verif_hooks_state::set_ctrl"],
         bound="`bstr .bits N`, N over the whole usize range, empty byte-string document; asserts no panic and 'bit number at or beyond the end is rejected' (the crate's reading of .bits itself is not asserted)",
         stubs=_CB_STUBS_FWD,
         api=("validate", lambda vals: {"cases": [dict(cddl="x = bstr .bits %d" % int.from_bytes(bytes(vals[0]), "little"), cbor=[0x40])]})),
    dict(name="c05_cbor_bits_bytes1_total", props=["C05"], tier="quick", cost=25,
         unit=["<" + CB + "::CBORValidator as Visitor>::visit_value (byte-string arm, control state .bits)", "verif_hooks_state::set_ctrl"],
         bound="`bstr .bits N`, N over the whole usize range, one symbolic byte as document; asserts no panic and 'bit number at or beyond the end is rejected'",
         stubs=_CB_STUBS_FWD,
         api=("validate", lambda vals: {"cases": [dict(cddl="x = bstr .bits %d" % int.from_bytes(bytes(vals[1]), "little"), cbor=[0x41, vals[0][0]])]})),
    dict(name="c05_alloc_indef_chunk", unreached_because="no verdict after 600 s (3 harnesses in parallel): the indefinite arm of read_bytes recurses into read_bytes and grows the result with extend_from_slice; concrete frame bytes do not help", props=["C05"], tier="unreached", cost=1800,
         unit=[CV + "::read_bytes::<&[u8]> (indefinite)"],
         bound="frame 41 xx 5b <8 symbolic length bytes ≥ 1>, nothing following", stubs=[]),
    dict(name="c11_l3_array_indef_frame4", unreached_because="no verdict after 900 s: on the error path the real code drops the partly built Vec<Value>; CBMC unfolds the recursive drop glue of Value (depth = unwind bound) for every element although decode_item is stubbed", props=["C11"], tier="unreached", cost=1800,
         unit=[CV + "::decode_array::<&[u8]> (indefinite)"], bound="≤ 4 bytes over {small ints, simple values, one-byte tags, break}", stubs=["decode_item -> contract stub faithful on the alphabet"]),
    dict(name="c11_l3_array_indef_frame3", unreached_because="no verdict after 420 s at unwind 4 (same drop-glue unfolding)", props=["C11"], tier="unreached", cost=1800,
         unit=[CV + "::decode_array::<&[u8]> (indefinite)"], bound="≤ 3 bytes over the frame alphabet", stubs=["decode_item -> contract stub"]),
    dict(name="c11_l3_map_indef_frame4", unreached_because="no verdict after 900 s (drop glue of Vec<(Value, Value)>)", props=["C11"], tier="unreached", cost=1800,
         unit=[CV + "::decode_map::<&[u8]> (indefinite)"], bound="≤ 4 bytes over the frame alphabet", stubs=["decode_item -> contract stub"]),
    dict(name="c11_l3_array_def_frame4", unreached_because="no verdict after 900 s (drop glue of Vec<Value>)", props=["C11"], tier="unreached", cost=1800,
         unit=[CV + "::decode_array::<&[u8]> (definite, k ≤ 2)"], bound="≤ 4 bytes over the frame alphabet", stubs=["decode_item -> contract stub"]),
    dict(name="c11_l3_map_def_frame4", unreached_because="no verdict after 900 s (drop glue of Vec<(Value, Value)>)", props=["C11"], tier="unreached", cost=1800,
         unit=[CV + "::decode_map::<&[u8]> (definite, k ≤ 2)"], bound="≤ 4 bytes over the frame alphabet", stubs=["decode_item -> contract stub"]),
]


# ------------------------------------------------------------------ visitor-callback level (C01, C02, C04, C09)
_CB_STUBS = ["alloc::fmt::format -> fresh one-character string (message text never decides a verdict)",
             "std::hash::RandomState::new -> fixed state (needs a syscall Kani does not model; no hash is computed on these paths)",
             "dependency stub set (kani/src/stubs.rs): regex::Regex::new, fancy_regex::Regex::new, uriparse, base64_url::decode, "
             "chrono::DateTime::parse_from_rfc3339 and the additional-control evaluators of validator/control.rs return Err "
             "(statically reachable from every visitor callback; never reached with these documents)"]
_QUICK_CB = {
    "C01": ["c00_ident_json_uint_int", "c00_ident_json_nint_int", "c00_ident_json_uint_big", "c00_ident_json_int_big",
            "c00_value_json_eq", "c00_value_json_lt", "c00_value_json_u64_gt", "c00_value_json_size", "c00_value_json_text_size",
            "c09_range_json_int",
            "c00_value_json_neg_vs_uint", "c09_range_json_mixed"],
    "C02": ["c00_ident_cbor_uint_int", "c00_ident_cbor_nint_int", "c00_ident_cbor_number_float", "c00_ident_cbor_true_bool",
            "c00_value_cbor_eq", "c00_value_cbor_lt", "c00_value_cbor_size", "c09_range_cbor_int"],
    "C04": ["c00_ident_json_uint_int", "c00_ident_cbor_uint_int", "c00_ident_json_nint_int", "c00_ident_cbor_nint_int",
            "c00_value_json_lt", "c00_value_cbor_lt", "c00_value_json_u64_gt", "c09_range_json_int", "c09_range_cbor_int",
            "c00_value_json_neg_vs_uint", "c09_range_json_mixed"],
    "C09": ["c09_occ_repeating_cbor", "c09_occ_repeating_json", "c09_range_cbor_int", "c09_range_json_int",
            "c00_value_cbor_ne", "c00_value_json_ne", "c00_ident_cbor_nint_int", "c00_ident_json_uint_int", "c00_ident_json_uint_big"],
}
_CB_UNREACHED = {"c00_type2_cbor_literal": "visit_type2 on a literal node ran out of 14 GB after 22 min: one level of composition (type2 -> value) is already too much"}
_CB_FINDINGS = {"c00_value_json_neg_vs_uint": "KF-C01-json-negative-vs-uint-literal", "c00_value_json_big_vs_int": "KF-C01-json-negative-vs-uint-literal",
                "c09_range_json_mixed": "KF-C01-json-mixed-range"}


def _le(v, signed=True):
    return int.from_bytes(bytes(v), "little", signed=signed)


def _cbor_int_bytes(n):
    major, arg = (0, n) if n >= 0 else (1, -1 - n)
    if arg < 24:
        return [major << 5 | arg]
    for ai, size in ((24, 1), (25, 2), (26, 4), (27, 8)):
        if arg < 1 << (8 * size):
            return [major << 5 | ai] + list(arg.to_bytes(size, "big"))
    raise ValueError(n)


def _cb_api(name):
    """Public-API confirmation of a callback-level counterexample: schema text + document."""
    side = "json" if "_json" in name else "cbor"

    def doc(n):
        return {"json": str(n)} if side == "json" else {"cbor": _cbor_int_bytes(n)}

    def f(vals):
        try:
            if "_ident_" in name and name.endswith(("_int", "_big")):
                ident = name.split("_")[3]
                n = _le(vals[0], signed=not name.endswith("_big"))
                return {"cases": [dict(cddl=f"x = {ident}", **doc(n))]}
            if "_value_" in name:
                v, neg, m = _le(vals[0]), vals[1][0] & 1, _le(vals[2], False)
                if name.endswith("neg_vs_uint"):
                    v, m, ctl = _le(vals[0]), _le(vals[1], False), vals[2][0]
                    c, op = m, {1: ".ne", 2: ".lt", 3: ".le"}[ctl]
                else:
                    c = -m if neg else m
                    op = {"eq": None, "ne": ".ne", "lt": ".lt", "le": ".le", "gt": ".gt", "ge": ".ge"}[name.rsplit("_", 1)[1]]
                return {"cases": [dict(cddl=f"x = int {op} {c}" if op else f"x = {c}", **doc(v))]}
            if "_range_" in name:
                if name.endswith("cbor_int"):
                    v, ln, un, lm, um, incl = _le(vals[0]), vals[1][0] & 1, vals[2][0] & 1, _le(vals[3], False), _le(vals[4], False), vals[5][0] & 1
                    l, u = (-lm if ln else lm), (-um if un else um)
                elif name.endswith("json_int"):
                    v, neg, lm, um, incl = _le(vals[0]), vals[1][0] & 1, _le(vals[2], False), _le(vals[3], False), vals[4][0] & 1
                    l, u = (-lm if neg else lm), (-um if neg else um)
                else:
                    v, lm, um, incl = _le(vals[0]), _le(vals[1], False), _le(vals[2], False), vals[3][0] & 1
                    l, u = -lm, um
                return {"cases": [dict(cddl=f"x = {l}{'..' if incl else '...'}{u}", **doc(v))]}
        except Exception as ex:  # mapping is best effort; the hook-level replay is what decides
            return {"cases": [], "mapping_error": repr(ex)}
        return {"cases": []}
    return ("validate", f)


def _cb_entries():
    import os, re
    src = open(os.path.join(os.path.dirname(os.path.abspath(__file__)), "..", "kani", "src", "h_cb.rs")).read()
    names = re.findall(r"!\(\s*(c00_\w+)\s*,", src) + re.findall(r"fn (c00_\w+)\(\)", src)
    names += ["c09_occ_repeating_cbor", "c09_occ_repeating_json", "c09_range_cbor_int", "c09_range_json_int", "c09_range_json_mixed"]
    out = []
    for n in dict.fromkeys(names):
        side = "json" if "_json" in n else "cbor"
        V = "cddl::validator::json::JSONValidator" if side == "json" else "cddl::validator::cbor::CBORValidator"
        if "_ident_" in n:
            unit = [f"<{V} as Visitor>::visit_identifier", f"{V}::new"]
            m = re.match(r"c00_ident_(?:json|cbor)_([a-z0-9]+)_([a-z]+)", n)
            bound = f"prelude name `{m.group(1)}`, schema without rules, one symbolic {m.group(2)} document" + (" (−2^64…2^64−1)" if side == "cbor" and m.group(2) == "int" else "")
            props = ["C09", "C01" if side == "json" else "C02", "C04"]
        elif "_type2_" in n:
            unit = [f"<{V} as Visitor>::visit_type2", f"<{V} as Visitor>::visit_value"]
            bound = "Type2::UintValue / Type2::IntValue node (magnitude symbolic), integer document symbolic"
            props = ["C01" if side == "json" else "C02"]
        elif "_text_size" in n:
            unit = [f"<{V} as Visitor>::visit_value", "verif_hooks_state::set_ctrl"]
            bound = "`tstr .size N`, N ≤ 3 symbolic, one-character string document (ASCII or a 2-byte scalar)"
            props = ["C01" if side == "json" else "C02"]
        elif "_value_" in n:
            unit = [f"<{V} as Visitor>::visit_value", "verif_hooks_state::set_ctrl"]
            if "_size" in n:
                bound = "`uint .size c`, c symbolic (≤ 15; 16..=20 in the _ge16 harness), non-negative integer document symbolic"
            elif "_u64_" in n:
                bound = "non-negative literal over the whole usize range, document over the whole u64 range, control state " + n.rsplit("_", 1)[1]
            else:
                bound = "integer literal of either kind (magnitude symbolic), integer document symbolic (" + ("i64" if side == "json" else "−2^64…2^64−1") + "), control state " + n.rsplit("_", 1)[1]
            props = ["C09", "C01" if side == "json" else "C02", "C04"]
        elif "_range_" in n:
            unit = [f"<{V} as Visitor>::visit_range"]
            bound = "integer bounds of either literal kind (magnitudes symbolic), inclusive/exclusive symbolic, integer document symbolic"
            props = ["C09", "C01" if side == "json" else "C02", "C04"]
        else:
            unit = [f"{V}::validate_repeating_member_count", f"{V}::repeating_member_upper_bound"]
            bound = "occurrence ?, *, +, n*m, n*, *m with n, m ≤ 3 symbolic; entry count 0..=3 symbolic"
            props = ["C09"]
        quick_for = [p for p, l in _QUICK_CB.items() if n in l]
        e = dict(name=n, props=props, tier="thorough", quick_for=quick_for, cost=30, unit=unit, bound=bound, stubs=_CB_STUBS, api=_cb_api(n))
        if n in _CB_FINDINGS:
            e["finding"] = _CB_FINDINGS[n]
        if n in _CB_UNREACHED:
            e["tier"] = "unreached"
            e["unreached_because"] = _CB_UNREACHED[n]
        out.append(e)
    return out


H += _cb_entries()

BY_NAME = {h["name"]: h for h in H}


for _h in H:
    _h.setdefault("timeout_quick", 1500)
    _h.setdefault("timeout_thorough", 3600)


def for_property(pid, tier):
    out = [h for h in H if pid in h["props"] and h["tier"] != "unreached"
           and (tier == "thorough" or h["tier"] == "quick" or pid in h.get("quick_for", []))]
    return out
