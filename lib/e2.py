"""E2 driver — cddl.pest → SAT versus RFC ABNF span derivability (DESIGN.md §1 E2, §5 C03/C07).

For every query shape (a free string of exact length N, or a template = concrete frame with a
symbolic hole) two satisfiability questions are asked of z3:
    OVER : Accept_PEG ∧ ¬D_hi      (the crate's grammar accepts something the RFC does not derive)
    UNDER: ¬Accept_PEG ∧ D_lo      (the crate's grammar rejects something the RFC derives)
D_hi / D_lo are the RFC grammar with the leniency, don't-care and known-finding switches applied
(e2/abnf.py). Both must be UNSAT — that is the bounded proof. Then every known finding is
re-derived: with its switch alone turned off the corresponding question must be SAT again and
the witness must behave as recorded when replayed through the real parser.
"""
import json
import os
import subprocess
import sys
import time

VERIF = os.path.dirname(os.path.dirname(os.path.abspath(__file__)))
sys.path.insert(0, os.path.join(VERIF, "e2"))
VT_SITE = None

import e1  # noqa: E402

import z3  # noqa: E402  (the check script runs under python3-vt, the tooling venv)

import abnf  # noqa: E402
import peg  # noqa: E402

LENIENCIES = {"L_tab", "L_final_comment", "L_hquoted", "L_hash_type"}
DONT_CARE = {"DC_radix_mantissa", "DC_qualifier_case"}
SOLVER_TIMEOUT_MS = 600_000


def load_findings():
    kf = json.load(open(os.path.join(VERIF, "known_findings.json")))
    out = {}
    for f in kf.get("findings", []):
        if f.get("engine") == "E2" and f.get("status") == "open":
            out[f["switch"]] = f
    return out


def build_pegdump():
    tdir = os.path.join(e1.BUILD, "pegdump")
    env = dict(os.environ)
    env["CARGO_NET_OFFLINE"] = "true"
    env.pop("RUSTFLAGS", None)
    p = subprocess.run(["cargo", "build", "--offline", "--release", "--target-dir", tdir],
                       cwd=os.path.join(VERIF, "pegdump"), env=env, stdout=subprocess.PIPE, stderr=subprocess.STDOUT, text=True)
    if p.returncode != 0:
        raise RuntimeError("pegdump build failed:\n" + p.stdout[-2000:])
    exe = os.path.join(tdir, "release", "pegdump")
    # (E2_PEST_OVERRIDE is for experiments with e2/probe.py only; registered checks never set it)
    out = subprocess.run([exe, os.environ.get("E2_PEST_OVERRIDE", "/repo/cddl.pest")], stdout=subprocess.PIPE, stderr=subprocess.PIPE, text=True)
    if out.returncode != 0:
        raise RuntimeError("pegdump failed on /repo/cddl.pest (grammar does not compile?):\n" + out.stderr[-2000:])
    return json.loads(out.stdout)


def control_names(rules):
    def names(e):
        if e["k"] == "str":
            return [e["s"]]
        if e["k"] == "choice":
            return names(e["a"]) + names(e["b"])
        raise RuntimeError("control_name is no longer a plain choice of literals")
    for r in rules:
        if r["name"] == "control_name":
            return names(r["expr"])
    raise RuntimeError("no control_name rule in cddl.pest")


def parse_native(texts, rule=None):
    if rule:
        code, out = e1.replay_api("parse_rule", {"rule": rule, "texts": [list(t) for t in texts]})
    else:
        code, out = e1.replay_api("parse", {"texts": [list(t) for t in texts]})
    if code != 0:
        raise RuntimeError("native parse helper failed: " + out)
    return json.loads(out.strip().splitlines()[-1])


class Shape:
    """A query shape: list of items, int = concrete byte, None = symbolic byte.
    `token` = (pest rule, ABNF nonterminal): compare one token rule over the whole string
    instead of the document rule (lemma used by the E1 literal-decoder harnesses: what the
    grammar hands to parse_*_lit is exactly an RFC uint / int spelling)."""

    def __init__(self, name, frame, utf8=False, hole_alphabet=None, token=None):
        self.name = name
        self.frame = frame
        self.utf8 = utf8
        self.hole_alphabet = hole_alphabet
        self.token = token

    def vars(self):
        S, sym = [], []
        for i, b in enumerate(self.frame):
            if b is None:
                v = z3.BitVec(f"c{i}", 8)
                S.append(v)
                sym.append(v)
            else:
                S.append(b)
        return S, sym


def free(n, utf8=False):
    return Shape(f"free{n}" + ("u" if utf8 else ""), [None] * n, utf8)


def template(name, prefix, hole, suffix, utf8=False, alphabet=None):
    return Shape(f"{name}[{hole}]", list(prefix.encode()) + [None] * hole + list(suffix.encode()), utf8, alphabet)


def token_shape(rule, nonterminal, n):
    return Shape(f"tok:{rule}[{n}]", [None] * n, False, None, (rule, nonterminal))


ESC_CHARS = [(0x5C, 0x5C), (0x22, 0x22), (0x75, 0x75), (0x7B, 0x7B), (0x7D, 0x7D), (0x30, 0x39), (0x41, 0x46), (0x61, 0x66),
             (0x6E, 0x6E), (0x2F, 0x2F), (0x20, 0x20), (0x01, 0x01), (0x7F, 0x7F)]
NAME_CHARS = [(0x61, 0x7A), (0x30, 0x39), (0x2D, 0x2D)]  # a-z 0-9 '-' : holes that hold a control name


def shapes_for(pid, tier):
    out = []
    if pid == "C07":
        top = 6 if tier == "quick" else 9
        for n in range(1, top + 1):
            out.append(token_shape("uint_value", "uint", n))
            out.append(token_shape("int_value", "negint", n))
    if pid == "C03":
        top = 8 if tier == "quick" else 10
        out += [free(n) for n in range(0, top + 1)]
        if tier == "quick":
            out += [template("ctl", "a=b .", h, " 1") for h in (4, 7)]
            out += [template("rule2", "a=1", h, "b=2") for h in (2,)]
            out += [template("arr", "a=[", h, "]") for h in (6,)]
            out += [template("map", "a={", h, "}") for h in (6,)]
            out += [template("tag", "a=#6.", h, "(b)") for h in (5,)]
            out += [template("bytes", "a='", h, "'") for h in (4,)]
            out += [template("cutkey", "a={(", h, ")^=>b}") for h in (1, 3)]
            out += [template("cutkeyarr", "a=[(", h, ")^=>b]") for h in (1,)]
            out += [free(n, True) for n in (4, 6)]
        else:
            out += [template("ctl", "a=b .", h, " 1") for h in range(2, 9)]
            out += [template("ctlname", "a=b .", h, " 1", alphabet=NAME_CHARS) for h in range(9, 12)]
            out += [template("rule2", "a=1", h, "b=2") for h in range(0, 5)]
            out += [template("arr", "a=[", h, "]") for h in range(5, 8)]
            out += [template("map", "a={", h, "}") for h in range(5, 8)]
            out += [template("par", "a=(", h, ")") for h in range(5, 8)]
            out += [template("tag", "a=#6.", h, "(b)") for h in range(1, 7)]
            out += [template("hash", "a=#", h, "") for h in range(1, 6)]
            out += [template("gp", "a<", h, ">=b") for h in range(1, 6)]
            out += [template("ga", "a=b<", h, ">") for h in range(1, 6)]
            out += [template("rng", "a=", h, "..9") for h in range(1, 5)]
            out += [template("cutkey", "a={(", h, ")^=>b}") for h in range(1, 6)]
            out += [template("cutkeyarr", "a=[(", h, ")^=>b]") for h in range(1, 5)]
            out += [free(n, True) for n in range(2, 8)]
    if pid in ("C03", "C07"):
        # text and byte-string literals: escapes, controls, quotes
        hs = (6, 8) if tier == "quick" else range(0, 9)
        out += [template("text", 'a="', h, '"') for h in hs]
        # longer holes over the characters escapes are made of (reaches \\uD83D\\uDE00 and \\u{10FFFF})
        out += [template("textesc", 'a="', h, '"', alphabet=ESC_CHARS) for h in (((12,) if pid == "C07" else ()) if tier == "quick" else range(9, 14))]
        if tier == "thorough":
            out += [template("bytes", "a='", h, "'") for h in range(0, 7)]
        elif pid == "C07":
            out += [template("bytes", "a='", h, "'") for h in (4,)]
        if tier == "thorough":
            out += [template("textu", 'a="', h, '"', utf8=True) for h in range(2, 7)]
    return out


def switch_sets(findings):
    hi = set(LENIENCIES) | set(DONT_CARE)
    lo = set()
    for sw, f in findings.items():
        (hi if f["direction"] == "over" else lo).add(sw)
    return hi, lo


class Query:
    def __init__(self, rules, ctl, shape):
        self.shape = shape
        self.S, self.sym = shape.vars()
        t0 = time.time()
        self.pe = peg.PegEncoder(rules, self.S, utf8=shape.utf8)
        if shape.token:
            self.acc = self.pe.rule_span(shape.token[0], 0, len(self.S), atomic=True)
        else:
            self.acc = self.pe.accept()
        self.encode_peg_s = time.time() - t0
        self.rules = rules
        self.ctl = ctl
        self.base = list(self.pe.defs) + peg.alphabet_constraints(self.S, shape.utf8)
        if shape.hole_alphabet:
            for v in self.sym:
                self.base.append(z3.Or([z3.And(z3.UGE(v, lo), z3.ULE(v, hi)) for lo, hi in shape.hole_alphabet]))
        self.oracles = {}

    def oracle(self, switches, tag):
        key = frozenset(switches)
        if key not in self.oracles:
            enc = abnf.CfgEncoder(abnf.make_grammar(set(switches), self.ctl, self.shape.utf8), self.S, tag + str(len(self.oracles)))
            d = enc.derives(self.shape.token[1]) if self.shape.token else enc.derives()
            self.oracles[key] = (d, enc.defs)
        return self.oracles[key]

    def ask(self, direction, switches, block=()):
        d, defs = self.oracle(switches, "h" if direction == "over" else "l")
        s = z3.Solver()
        s.set("timeout", SOLVER_TIMEOUT_MS)
        s.add(self.base)
        s.add(defs)
        if direction == "over":
            s.add(self.acc, z3.Not(d))
        else:
            s.add(z3.Not(self.acc), d)
        for b in block:
            s.add(z3.Or([v != x for v, x in zip(self.sym, b)]))
        t0 = time.time()
        r = s.check()
        dt = time.time() - t0
        if r == z3.sat:
            m = s.model()
            symvals = [m.eval(v, model_completion=True).as_long() for v in self.sym]
            it = iter(symvals)
            text = bytes(b if b is not None else next(it) for b in self.shape.frame)
            return "sat", text, symvals, dt
        return ("unsat" if r == z3.unsat else "unknown"), None, None, dt

    def pinned_accepts(self, text):
        """Encoder validation: does the PEG encoding accept this concrete string?"""
        s = z3.Solver()
        s.add(self.base)
        it = iter(text)
        for b, v in zip(self.shape.frame, self.S):
            x = next(it)
            if b is None:
                s.add(v == x)
        s.add(self.acc)
        return s.check() == z3.sat


def corpus_strings(maxlen):
    """CDDL snippets from the repository's own tests and fixtures (encoder validation)."""
    import re
    out = set()
    roots = ["/repo/tests", "/repo/src"]
    for root in roots:
        for dp, _dn, fns in os.walk(root):
            for fn in fns:
                p = os.path.join(dp, fn)
                try:
                    t = open(p, errors="replace").read()
                except Exception:
                    continue
                if fn.endswith(".cddl") and len(t) <= maxlen:
                    out.add(t)
                if fn.endswith(".rs"):
                    for m in re.finditer(r'"((?:[^"\\\n]|\\.){1,%d})"' % maxlen, t):
                        lit = m.group(1)
                        try:
                            lit = bytes(lit, "utf-8").decode("unicode_escape")
                        except Exception:
                            continue
                        if "=" in lit and len(lit.encode()) <= maxlen and all(ord(c) < 0x80 for c in lit):
                            out.add(lit)
    more = set()
    for s in out:
        for i in range(len(s)):
            more.add(s[:i] + s[i + 1:])
    return sorted(out | more)


def run(pid, tier, seed):
    t_start = time.time()
    findings = load_findings()
    rules = build_pegdump()
    ctl = control_names(rules)
    e1.build_replay("dev")
    hi, lo = switch_sets(findings)
    shapes = shapes_for(pid, tier)
    violations, known, broken, samples, per_query = [], [], [], [], []
    discharged = nontrivial = nq = 0
    solver_s = 0.0
    queries = {}
    # --- encoder validation on the repo's own inputs (lengths that have a free shape)
    validated = disagreements = 0
    corpus = corpus_strings(8 if tier == "quick" else 10)
    # --- (a) the bounded proof
    for sh in shapes:
        try:
            q = Query(rules, ctl, sh)
        except peg.Unsupported as ex:
            broken.append(f"PEG construct not supported by the encoder: {ex}")
            continue
        queries[sh.name] = q
        if sh.name.startswith("free") and not sh.utf8:
            n = len(sh.frame)
            todo = [c.encode() for c in corpus if len(c.encode()) == n]
            if todo:
                nat = parse_native(todo)
                for t, r in zip(todo, nat):
                    validated += 1
                    if q.pinned_accepts(t) != r["pest"]:
                        disagreements += 1
                        broken.append(f"encoder fault: PEG encoding and pest disagree on {t!r} (pest={r['pest']})")
        entry = {"shape": sh.name, "length": len(sh.frame), "symbolic_bytes": len(q.sym), "utf8_2byte": sh.utf8,
                 "peg_defs": len(q.pe.defs), "encode_peg_s": round(q.encode_peg_s, 2)}
        for direction, sw in (("over", hi), ("under", lo)):
            block = []
            verdict = None
            for _attempt in range(6):
                res, text, symvals, dt = q.ask(direction, sw, block)
                nq += 1
                solver_s += dt
                if res != "sat":
                    verdict = res
                    break
                # a model: replay through the real parser (token lemmas: through the pest rule itself)
                nat = parse_native([text], sh.token[0] if sh.token else None)[0]
                if not nat.get("utf8", True):
                    block.append(symvals)
                    continue
                if nat["pest"] != (direction == "over"):
                    broken.append(f"encoder fault: model {text!r} for {direction} on {sh.name}: pest says {nat['pest']}")
                    verdict = "encoder-fault"
                    break
                if direction == "over" and not nat["crate"]:
                    # the grammar accepts but the bridge rejects: the crate is right; look further
                    block.append(symvals)
                    entry.setdefault("bridge_rejected_models", []).append(text.decode("latin-1"))
                    continue
                rec = {"property": pid, "engine": "E2", "direction": direction, "shape": sh.name, "token_rule": sh.token[0] if sh.token else None,
                       "text": list(text), "text_repr": repr(text), "pest_accepts": nat["pest"], "crate_accepts": nat["crate"],
                       "what": ("accepted by the crate but not derivable from the RFC grammar (with listed leniencies)"
                                if direction == "over" else "derivable from the RFC grammar but rejected by the crate")}
                violations.append((f"{sh.name}/{direction}", None, rec))
                verdict = "sat"
                break
            if verdict is None:
                verdict = "gave-up-blocking"
            entry[direction] = verdict
            if verdict == "unsat":
                discharged += 1
            elif verdict in ("unknown", "gave-up-blocking"):
                broken.append(f"{sh.name}/{direction}: solver answered {verdict}")
        # vacuity: the shape must admit accepted AND rejected strings unless the frame forbids it
        s = z3.Solver()
        s.add(q.base)
        s.add(q.acc)
        has_acc = s.check() == z3.sat
        acc_text = None
        if has_acc:
            m = s.model()
            it = iter([m.eval(v, model_completion=True).as_long() for v in q.sym])
            acc_text = bytes(b if b is not None else next(it) for b in sh.frame)
        nq += 1
        entry["accepting_witness"] = repr(acc_text) if acc_text is not None else None
        if entry.get("over") == "unsat" and entry.get("under") == "unsat" and (has_acc or len(q.sym) <= 1):
            nontrivial += 1
            if acc_text is not None and len(samples) < 12:
                samples.append({"shape": sh.name, "accepted_by_both": repr(acc_text)})
        per_query.append(entry)
    # --- (b) every listed finding is still there
    for sw, f in sorted(findings.items()):
        if f["property"] != pid and not (pid == "C03" and f["property"] == "C07") and not (pid == "C07" and f.get("also_c07")):
            continue
        direction = f["direction"]
        sh_name = f["witness_shape"]
        confirmed = None
        cand = [sh_name] + [n for n in queries if n.startswith(sh_name.split("[")[0])]
        for name in cand:
            q = queries.get(name)
            if q is None:
                continue
            sws = (hi if direction == "over" else lo) - {sw}
            block = []
            for _ in range(4):
                res, text, symvals, dt = q.ask(direction, sws, block)
                nq += 1
                solver_s += dt
                if res != "sat":
                    break
                nat = parse_native([text])[0]
                ok = nat.get("utf8", True) and nat["pest"] == (direction == "over") and (direction == "under" or nat["crate"])
                if ok:
                    confirmed = text
                    break
                block.append(symvals)
            if confirmed is not None:
                break
        if confirmed is not None:
            known.append((f["id"], f, {"text": list(confirmed), "text_repr": repr(confirmed)}))
            samples.append({"known_finding": f["id"], "witness": repr(confirmed)})
        else:
            print(f"note: listed finding {f['id']} was not re-derived in this tier's shapes (switch {sw} off gives no witness)")
    # violations get replay files
    out_v = []
    from common import save_replay
    for name, _p, rec in violations:
        path = save_replay(pid, "e2-" + rec["direction"], rec)
        out_v.append((name, path, rec))
    parts = {
        "engine": "E2 pest_meta 2.8.8 optimiser dump + z3 " + z3.get_version_string(),
        "grammar_rules": len(rules), "control_names": len(ctl),
        "switches_relaxing_oracle": sorted(hi), "switches_restricting_oracle": sorted(lo),
        "queries": per_query, "samples": samples, "discharged": discharged, "nontrivial": nontrivial,
        "solver_queries": nq, "solver_time_s": round(solver_s, 1),
        "encoder_validation": {"corpus_strings_checked": validated, "disagreements": disagreements},
        "assumptions": [
            "pest_meta::parse_and_optimize output is what pest_derive compiles (same crate version as in /repo's lock file)",
            "implicit WHITESPACE/COMMENT skipping and atomicity modelled after pest_generator; validated against the real parser on the repository's own test inputs and on every solver model",
            "oracle: RFC 8610 Appendix B + RFC 9682 transcribed by hand (e2/abnf.py); leniencies " + ", ".join(sorted(LENIENCIES)) + "; don't-care " + ", ".join(sorted(DONT_CARE)),
            "alphabet: ASCII bytes 0x00-0x7f (plus 2-byte UTF-8 scalars in the shapes marked utf8_2byte); exact lengths and templates as listed; longer strings and deeper nesting are outside the claim",
        ],
        "wall_s": round(time.time() - t_start, 1),
    }
    return out_v, known, broken, parts


def replay(rec):
    nat = parse_native([bytes(rec["text"])], rec.get("token_rule"))[0]
    print(f"text {bytes(rec['text'])!r}: pest accepts={nat.get('pest')} crate accepts={nat.get('crate')}")
    still = (nat.get("crate") is True) if rec["direction"] == "over" else (nat.get("crate") is False)
    if still:
        print(f"VIOLATION property={rec['property']} replay=(this file)")
        return 1
    print("behaviour differs from the recorded violation on the current tree")
    return 0
