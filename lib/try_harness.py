#!/usr/bin/env python3
"""Experiment helper: run named harnesses (no table entry needed), print status and timing."""
import sys, os
sys.path.insert(0, os.path.dirname(os.path.abspath(__file__)))
import e1
timeout = int(os.environ.get("T", "900"))
names = sys.argv[1:]
specs = [dict(name=n, cost=100, timeout_quick=timeout) for n in names]
jobs, b = e1.run_harnesses(specs, "quick", int(os.environ.get("W", "6")), os.path.join(e1.BUILD, "logs", "try"))
print("build", round(b, 1))
for j in jobs:
    r = j.result
    print(f'{j.spec["name"]:40s} {r["status"]:12s} cbmc {r["verification_time_s"]} wall {j.wall_s:.0f} covers {r["covers_satisfied"]}/{r["covers_total"]} steps {r["program_steps"]} failed {[f["desc"] for f in r["failed_checks"]][:3]}')
