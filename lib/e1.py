"""E1 — Kani/CBMC over the compiled Rust: build, run harnesses in parallel, parse results,
replay counterexamples natively. See DESIGN.md section 1 (E1) and section 3."""
import hashlib
import json
import os
import re
import resource
import shutil
import subprocess
import threading
import time

VERIF = os.path.dirname(os.path.dirname(os.path.abspath(__file__)))
BUILD = os.path.join(VERIF, ".build")
KANI_CRATE = os.path.join(VERIF, "kani")
REPLAY_CRATE = os.path.join(VERIF, "replay")
GUARD = "--cfg anweiss_cddl_verif"
MEM_LIMIT = 14 * 1024 ** 3  # address-space cap per Kani/CBMC process tree member


def _env():
    e = dict(os.environ)
    e["RUSTFLAGS"] = GUARD
    e["CARGO_NET_OFFLINE"] = "true"
    e.pop("CARGO_TARGET_DIR", None)
    return e


def _limits():
    try:
        resource.setrlimit(resource.RLIMIT_AS, (MEM_LIMIT, MEM_LIMIT))
    except Exception:
        pass
    os.setsid()


_MODULES = None


def qualified(name):
    """module::function for a harness; Kani's --harness filter matches substrings unless --exact is
    given, and two harness names here are prefixes of others."""
    global _MODULES
    if _MODULES is None:
        _MODULES = {}
        src = os.path.join(KANI_CRATE, "src")
        for fn in os.listdir(src):
            if fn.startswith("h_") and fn.endswith(".rs"):
                text = open(os.path.join(src, fn)).read()
                for m in re.finditer(r"fn (c\d\d_\w+)\(\)", text):
                    _MODULES[m.group(1)] = fn[:-3]
                for m in re.finditer(r"!\(\s*(c\d\d_\w+)\s*,", text):
                    _MODULES[m.group(1)] = fn[:-3]
    if name not in _MODULES:
        raise RuntimeError(f"harness {name} not found in {KANI_CRATE}/src")
    return f"{_MODULES[name]}::{name}"


def kani_cmd(target_dir, harnesses, only_codegen=False, playback=True):
    cmd = ["cargo", "kani", "-Z", "stubbing", "--exact", "--target-dir", target_dir]
    if playback:
        # concrete playback makes CBMC produce a trace per cover/failure (measured 2.6x slower),
        # so it is on for cheap harnesses (their cover witnesses become evidence samples) and
        # for the second run of a harness that failed
        cmd += ["-Z", "concrete-playback", "--concrete-playback=print"]
    if only_codegen:
        cmd.append("--only-codegen")
    for h in harnesses:
        cmd += ["--harness", qualified(h)]
    return cmd


def refresh_base(first_harness, log):
    """(Re)build the dependency graph, including /repo's current working tree, once in the
    base target dir. Every worker dir is synchronised from it afterwards."""
    base = os.path.join(BUILD, "kani", "base")
    os.makedirs(base, exist_ok=True)
    t0 = time.time()
    p = subprocess.run(kani_cmd(base, [first_harness], only_codegen=True), cwd=KANI_CRATE, env=_env(),
                       stdout=subprocess.PIPE, stderr=subprocess.STDOUT, text=True)
    with open(log, "w") as f:
        f.write(p.stdout)
    if p.returncode != 0:
        errs = [l for l in p.stdout.splitlines() if l.startswith("error")]
        raise RuntimeError("kani build of the harness crate failed: " + "; ".join(errs[:5]) + f" (log {log})")
    return time.time() - t0


def sync_worker(k):
    base = os.path.join(BUILD, "kani", "base")
    w = os.path.join(BUILD, "kani", f"w{k}")
    subprocess.run(["rsync", "-a", "--delete", base + "/", w + "/"], check=True)
    return w


PLAYBACK_RE = re.compile(
    r"/// Test generated for harness `(?P<h>[^`]+)`\s*\n///\s*\n/// Check for `(?P<kind>[^`]+)`: \"(?P<desc>(?:[^\"\\]|\\.)*)\"\s*\n"
    r"(?:.*\n)*?\s*let concrete_vals: Vec<Vec<u8>> = vec!\[\n(?P<body>(?:.*\n)*?)\s*\];", re.M)


def parse_playback(text):
    out = []
    for m in PLAYBACK_RE.finditer(text):
        vals = []
        for line in m.group("body").splitlines():
            line = line.strip()
            mm = re.match(r"vec!\[([0-9, ]*)\],?$", line)
            if mm:
                inner = mm.group(1).strip()
                vals.append([int(x) for x in inner.split(",") if x.strip()] if inner else [])
        out.append({"kind": m.group("kind"), "desc": m.group("desc"), "vals": vals})
    return out


def parse_result(text):
    """Extract verdict and statistics for a single-harness Kani run."""
    r = {"status": "inconclusive", "checks_total": 0, "checks_failed": 0, "unreachable": 0,
         "covers_total": 0, "covers_satisfied": 0, "failed_checks": [], "verification_time_s": None,
         "program_steps": None, "vccs": None, "sat_vars": None, "sat_clauses": None, "stubs": []}
    m = re.search(r"\*\* (\d+) of (\d+) failed(?: \((\d+) (?:unreachable|undetermined)[^)]*\))?", text)
    if m:
        r["checks_failed"] = int(m.group(1))
        r["checks_total"] = int(m.group(2))
        r["unreachable"] = int(m.group(3) or 0)
    m = re.search(r"\*\* (\d+) of (\d+) cover properties satisfied", text)
    if m:
        r["covers_satisfied"] = int(m.group(1))
        r["covers_total"] = int(m.group(2))
    m = re.search(r"Verification Time: ([0-9.]+)s", text)
    if m:
        r["verification_time_s"] = float(m.group(1))
    m = re.search(r"size of program expression: (\d+) steps", text)
    if m:
        r["program_steps"] = int(m.group(1))
    m = re.search(r"Generated (\d+) VCC\(s\), (\d+) remaining after simplification", text)
    if m:
        r["vccs"] = int(m.group(2))
    ms = re.findall(r"(\d+) variables, (\d+) clauses", text)
    if ms:
        r["sat_vars"] = max(int(a) for a, _ in ms)
        r["sat_clauses"] = max(int(b) for _, b in ms)
    r["solver_queries"] = len(ms)
    r["stubs"] = sorted(set(re.findall(r"- Stub: ([^\n]+)", text)))
    for m in re.finditer(r"Failed Checks: ([^\n]+)\n\s*File: \"([^\"]+)\", line (\d+), in ([^\n]+)", text):
        r["failed_checks"].append({"desc": m.group(1).strip(), "file": m.group(2), "line": int(m.group(3)),
                                   "fn": m.group(4).strip()})
    if not r["failed_checks"]:
        for m in re.finditer(r"Failed Checks: ([^\n]+)", text):
            r["failed_checks"].append({"desc": m.group(1).strip()})
    n_harnesses = len(re.findall(r"^Checking harness ", text, re.M))
    if n_harnesses != 1:
        r["status"] = "inconclusive"  # the filter must select exactly one harness
        r["failed_checks"].append({"desc": f"{n_harnesses} harnesses matched the filter (expected exactly one)"})
        return r
    if "VERIFICATION:- FAILED" not in text and "VERIFICATION:- SUCCESSFUL" in text:
        r["status"] = "success"
    elif "VERIFICATION:- FAILED" in text:
        # distinguish real assertion failures from unwinding / unsupported / OOM
        descs = " | ".join(f["desc"] for f in r["failed_checks"])
        if re.search(r"unwinding assertion", descs):
            r["status"] = "unwind_too_small"
        elif r["checks_failed"] > 0 and r["failed_checks"]:
            r["status"] = "failed"
        else:
            r["status"] = "inconclusive"
    if re.search(r"Status: ERROR|CBMC failed|out of memory|std::bad_alloc|Killed", text) and r["status"] != "success":
        r["status"] = "inconclusive"
    return r


class Job:
    def __init__(self, spec, timeout_s):
        self.spec = spec
        self.timeout_s = timeout_s
        self.result = None
        self.log = None
        self.wall_s = None
        self.playback = []


def run_job(job, target_dir, logdir, playback=None):
    name = job.spec["name"]
    if playback is None:
        playback = job.spec.get("cost", 10) <= 15
    log = os.path.join(logdir, name + (".playback" if playback and job.result is not None else "") + ".log")
    job.log = log
    t0 = time.time()
    with open(log, "w") as f:
        p = subprocess.Popen(kani_cmd(target_dir, [name], playback=playback), cwd=KANI_CRATE, env=_env(), stdout=f,
                             stderr=subprocess.STDOUT, preexec_fn=_limits)
        try:
            p.wait(timeout=job.timeout_s)
            timed_out = False
        except subprocess.TimeoutExpired:
            timed_out = True
            try:
                os.killpg(p.pid, 9)
            except Exception:
                pass
            p.wait()
    job.wall_s = time.time() - t0
    text = open(log, errors="replace").read()
    res = parse_result(text)
    if timed_out:
        res["status"] = "timeout"
    job.playback = parse_playback(text)
    first = job.result is None
    job.result = res
    if first and res["status"] == "failed" and not playback:
        # second run, with concrete playback, to obtain the counterexample values
        first_wall = job.wall_s
        run_job(job, target_dir, logdir, playback=True)
        job.wall_s += first_wall
    return job


def run_harnesses(specs, tier, workers, logdir, seed=0):
    """Run every harness spec; returns list of Job."""
    os.makedirs(logdir, exist_ok=True)
    jobs = [Job(s, s.get("timeout_thorough", 1800) if tier == "thorough" else s.get("timeout_quick", 420))
            for s in specs]
    # longest expected first; seed only permutes ties
    order = sorted(range(len(jobs)), key=lambda i: (-jobs[i].spec.get("cost", 10), (i * 2654435761 + seed) % 997))
    queue = [jobs[i] for i in order]
    lock = threading.Lock()
    build_s = refresh_base(queue[0].spec["name"], os.path.join(logdir, "_build.log")) if queue else 0.0
    nworkers = max(1, min(workers, len(queue)))
    dirs = [sync_worker(k) for k in range(nworkers)]

    def worker(k):
        while True:
            with lock:
                if not queue:
                    return
                j = queue.pop(0)
            run_job(j, dirs[k], logdir)

    ts = [threading.Thread(target=worker, args=(k,)) for k in range(nworkers)]
    for t in ts:
        t.start()
    for t in ts:
        t.join()
    return jobs, build_s


# ---------------------------------------------------------------- native replay

_replay_built = {}


def build_replay(profile):
    if profile in _replay_built:
        return _replay_built[profile]
    tdir = os.path.join(BUILD, "replay")
    cmd = ["cargo", "build", "--offline", "--target-dir", tdir]
    if profile == "release":
        cmd.append("--release")
    p = subprocess.run(cmd, cwd=REPLAY_CRATE, env=_env(), stdout=subprocess.PIPE, stderr=subprocess.STDOUT, text=True)
    if p.returncode != 0:
        raise RuntimeError("native replay build failed:\n" + p.stdout[-3000:])
    path = os.path.join(tdir, "release" if profile == "release" else "debug", "replay")
    _replay_built[profile] = path
    return path


def replay_harness(name, vals, profile="dev"):
    """Run the harness natively on concrete values. Returns (code, output):
    1 reproduced, 0 not reproduced, 3 assumption violated, other = error."""
    exe = build_replay(profile)
    tmp = os.path.join(BUILD, "tmp")
    os.makedirs(tmp, exist_ok=True)
    path = os.path.join(tmp, f"vals-{name}-{os.getpid()}-{threading.get_ident()}.json")
    with open(path, "w") as f:
        json.dump(vals, f)
    p = subprocess.run([exe, "harness", name, path], stdout=subprocess.PIPE, stderr=subprocess.STDOUT, text=True,
                       timeout=120)
    os.unlink(path)
    return p.returncode, p.stdout


def replay_api(kind, args, profile="dev"):
    exe = build_replay(profile)
    tmp = os.path.join(BUILD, "tmp")
    os.makedirs(tmp, exist_ok=True)
    path = os.path.join(tmp, f"api-{kind}-{os.getpid()}-{threading.get_ident()}.json")
    with open(path, "w") as f:
        json.dump(args, f)
    p = subprocess.run([exe, "api", kind, path], stdout=subprocess.PIPE, stderr=subprocess.STDOUT, text=True,
                       timeout=120)
    os.unlink(path)
    return p.returncode, p.stdout


def vals_digest(vals):
    return hashlib.sha1(json.dumps(vals).encode()).hexdigest()[:12]
