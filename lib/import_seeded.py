#!/usr/bin/env python3
"""Copies independently confirmed seeded changes into /verif/seeded/<id>/ (patch.diff, demo.rs, meta.json)."""
import json, os, re, shutil, sys
SRC = "/tmp/seedout"
DST = os.path.join(os.path.dirname(os.path.abspath(__file__)), "..", "seeded")
for d in sorted(os.listdir(os.path.join(SRC, "confirm"))):
    rp = os.path.join(SRC, "confirm", d, "result.json")
    if not os.path.exists(rp):
        continue
    r = json.load(open(rp))
    pid, m = d.split("-")
    src = os.path.join(SRC, pid, m)
    pid = pid.rstrip("b")  # second-round directories are named C02b, C09b
    log = open(os.path.join(SRC, "confirm", d, "suite_patched.log"), errors="replace").read()
    # every "test result: FAILED" must belong to the demo target
    failed_blocks = re.findall(r"Running (?:unittests )?(\S+).*?\n(?:.*\n)*?test result: (ok|FAILED)", log)
    results = re.findall(r"test result: (ok|FAILED)\. (\d+) passed; (\d+) failed", log)
    total_pass = sum(int(p) for _, p, _ in results)
    total_fail = sum(int(f) for _, _, f in results)
    demo_log = open(os.path.join(SRC, "confirm", d, "demo_patched.log"), errors="replace").read()
    dm = re.search(r"test result: \w+\. (\d+) passed; (\d+) failed", demo_log)
    demo_failed = int(dm.group(2)) if dm else None
    demo_passed = int(dm.group(1)) if dm else 0
    suite_ok = (total_fail == (demo_failed or 0)) and "could not compile" not in log
    ok = r["applies"] and suite_ok and r["demo_exit_with_patch"] != 0 and r["demo_exit_clean"] == 0
    print(d, "OK" if ok else "REJECT", "suite pass", total_pass - demo_passed, "suite fail", total_fail - (demo_failed or 0), "demo fails with patch:", demo_failed)
    if not ok:
        continue
    out = os.path.join(DST, d)
    os.makedirs(out, exist_ok=True)
    shutil.copy(os.path.join(src, "patch.diff"), os.path.join(out, "patch.diff"))
    shutil.copy(os.path.join(src, "demo.rs"), os.path.join(out, "demo.rs"))
    notes = open(os.path.join(src, "notes.md"), errors="replace").read()
    meta_path = os.path.join(out, "meta.json")
    meta = json.load(open(meta_path)) if os.path.exists(meta_path) else {}
    meta.update({
        "id": d, "property": pid.rstrip("b"), "author": "independent sub-agent given only the property text and a scratch worktree",
        "summary": notes.strip().splitlines()[0][:300] if notes.strip() else "",
        "confirmed_by_me": {
            "worktree": "scratch git worktree of /repo at the hooks commit (removed afterwards)",
            "ran": ["git apply patch.diff", "cargo test --workspace --no-fail-fast --offline (existing suite + demo as tests/seed_demo.rs)",
                    "cargo test --offline --test seed_demo   (with patch)", "git checkout -- . ; cargo test --offline --test seed_demo   (clean)"],
            "existing_suite_with_patch": {"passed": total_pass - demo_passed, "failed": total_fail - (demo_failed or 0)},
            "demo_with_patch": "FAILS (%s test(s) fail)" % demo_failed, "demo_clean": "passes",
        },
    })
    meta.setdefault("needs_to_manifest", "")
    meta.setdefault("detected_by", None)
    json.dump(meta, open(meta_path, "w"), indent=1)
    with open(os.path.join(out, "notes.md"), "w") as f:
        f.write(notes)
