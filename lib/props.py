"""Which properties are claimed, by which engine, with what scope; and which are not."""

COMMON_E1 = [
    "Kani 0.68 MIR translation and models of alloc/intrinsics; CBMC 6.11 with unwinding assertions on; cadical",
    "harness crate built against /repo's working tree with default cargo features and --cfg anweiss_cddl_verif (hook forwarders only)",
    "bounds are those stated per harness; inputs outside them are outside the claim",
]

CB = ("visitor-callback level: a public visitor method (visit_identifier / visit_value / visit_range) or occurrence kernel of a "
      "validator built with the public constructor is called once with stack-allocated literal nodes and a symbolic scalar "
      "document and compared with the RFC 8610 meaning of that node")

CLAIMED = {
    "C01": dict(engines=["E1"], scope=CB + ": prelude scalar types on integer/bool/null JSON documents, integer literals, comparison controls (.ne .lt .le .gt .ge), `uint .size N` and `tstr .size N` on scalars, and integer ranges, over the whole i64 range (and the u64 range above it for non-negative literals). Type choices, arrays, groups, maps, cuts, rule references and every composition of callbacks (the walk from validate_json_from_str down to the callback) are outside the claim",
                assumptions=COMMON_E1),
    "C04": dict(engines=["E1"], scope=CB + ": the JSON and the CBOR validator are each compared with the same oracle for the same node and the same integer/bool/null value, so within these bounds they agree with each other; everything that needs more than one callback is outside the claim",
                assumptions=COMMON_E1),
    "C02": dict(engines=["E1"], scope="kernel and visitor-callback level: numeric key-domain predicate, bignum tag predicate, literal→CBOR value conversion, the scalar layer of the decoder (encoding independence of integer/float heads), and prelude names / integer literals / comparison controls / integer ranges on scalar CBOR documents over the full 64-bit head range through the public visitor methods; arrays, maps, tags and every composition of callbacks are outside the claim",
                assumptions=COMMON_E1),
    "C03": dict(engines=["E2", "E1"], scope="acceptance half: cddl.pest (as optimised by pest_meta) accepts exactly the strings derivable from the RFC 8610/9682 ABNF, for every string up to the length bound and every template hole; AST shape is outside the claim; plus (E1) the control-name table agrees with the operator printer",
                assumptions=[]),
    "C05": dict(engines=["E1"], scope="panic/overflow/out-of-bounds freedom of the byte-level kernels for all in-bound inputs, allocation from wire lengths (definite heads), error-position arithmetic, and the index/shift arithmetic of `bstr .bits N` in the CBOR validator's visit_value for every N; indefinite-length items, every other validator-level panic, stack depth and time bounds are outside the claim",
                assumptions=COMMON_E1),
    "C06": dict(engines=["E1"], scope="literal rendering only (text, h'..', b64'..', small integers) composed with the real literal decoders; document-level round trips are outside the claim",
                assumptions=COMMON_E1),
    "C07": dict(engines=["E1", "E2", "E3"], scope="integer literal decoders incl. 2^63/2^64 windows, hex/base64 decoders on short inputs (E1); text escapes that name no scalar value are rejected by the grammar, token rules equal RFC uint/int (E2); the code-point arithmetic of unescape_text (surrogate pairs, pass-through) on its MIR (E3); float values and syntactic position are outside the claim",
                assumptions=COMMON_E1),
    "C09": dict(engines=["E1"], scope="prelude identities at classification level and at verdict level (visit_identifier on scalar documents), .ne versus equality and inclusive versus exclusive ranges at visitor-callback level in both validators, occurrence indicators of repeating map members (? * + versus 0*1 0* 1*); A / B, .and, .within and anything needing a composition of callbacks are outside the claim",
                assumptions=COMMON_E1),
    "C10": dict(engines=["E1"], scope="assignment kernels: Kuhn re-assignment = perfect matching and permutation invariant for every 2x2 (thorough: 3x3) compatibility matrix; ledger lookups by physical index; whole-validator order independence is outside the claim",
                assumptions=COMMON_E1),
    "C11": dict(engines=["E1"], scope="layered: every head of ≤ 9 bytes, decode_value dispatch and all scalar values on ≤ 9/10 symbolic bytes (callees stubbed by contract), definite strings ≤ 4 payload bytes incl. UTF-8 validity and truncation; indefinite strings and containers only in the thorough tier",
                assumptions=COMMON_E1),
    "C13": dict(engines=["E1"], scope="field coercion (coerce_field) only; RFC 4180 record splitting and the delegation to the JSON validator are outside the claim",
                assumptions=COMMON_E1),
    "C15": dict(engines=["E1"], scope="position arithmetic: error range / index / line / column for rejected documents on ASCII ≤ 4–6 bytes, span→position helpers incl. one multi-byte scalar; AST span structure is outside the claim",
                assumptions=COMMON_E1),
}

NOT_APPLICABLE = {
    "C08": "relates two whole-validator runs over rule graphs and generic-argument state; unreachable for the same measured reasons as C01",
    "C12": "the duplicate check is inline in convert_cddl and the reference walker consumes pest Pairs; the pest-generated parser is not symbolically executable (measured: >5 GB on the concrete input a=1) and name equality across rules is not expressible in the grammar encoding",
    "C14": "quantifies over thread schedules (not modelled by Kani) and over error lists built along whole-validator paths",
    "C16": "comment attachment and rendering need the parser and the printer; the only separable kernel (merge) did not finish in 10 min at 1 comment x 2 anchors (SipHash/hashbrown)",
    "C17": "needs rustc and serde on generated text; the separable kernels (compute_scc_ids, to_snake_case, deduplicate_field_names) all exceeded the caps when probed",
    "C18": "process-level I/O: clap, files, stdin, global logger, exit status - not encodable",
    "C19": "build configurations are decided by the compiler; cross-configuration equality needs whole parser/validator runs",
    "C20": "arena de-duplication by deep structural equality over heap ASTs; measured >20 min for a two-rule document with three symbolic names",
}
