"""Which properties are claimed, by which engine, with what scope; and which are not."""

COMMON_E1 = [
    "Kani 0.68 MIR translation and models of alloc/intrinsics; CBMC 6.11 with unwinding assertions on; cadical",
    "harness crate built against /repo's working tree with default cargo features and --cfg anweiss_cddl_verif (hook forwarders only)",
    "bounds are those stated per harness; inputs outside them are outside the claim",
]

CLAIMED = {
    "C02": dict(engines=["E1"], scope="kernel level only: numeric key-domain predicate, bignum tag predicate, literal→CBOR value conversion, and the scalar layer of the decoder (encoding independence of integer/float heads); whole-validator verdicts are outside the claim",
                assumptions=COMMON_E1),
    "C03": dict(engines=["E2", "E1"], scope="acceptance half: cddl.pest (as optimised by pest_meta) accepts exactly the strings derivable from the RFC 8610/9682 ABNF, for every string up to the length bound and every template hole; AST shape is outside the claim; plus (E1) the control-name table agrees with the operator printer",
                assumptions=[]),
    "C05": dict(engines=["E1"], scope="panic/overflow/out-of-bounds freedom of the byte-level kernels for all in-bound inputs, allocation from wire lengths, error-position arithmetic; validator-level panics, stack depth and time bounds are outside the claim",
                assumptions=COMMON_E1),
    "C06": dict(engines=["E1"], scope="literal rendering only (text, h'..', b64'..', small integers) composed with the real literal decoders; document-level round trips are outside the claim",
                assumptions=COMMON_E1),
    "C07": dict(engines=["E1", "E2"], scope="integer literal decoders incl. 2^63/2^64 windows, hex/base64 decoders on short inputs (E1); text escapes that name no scalar value are rejected by the grammar (E2); unescape_text values, floats and syntactic position are outside the claim",
                assumptions=COMMON_E1),
    "C09": dict(engines=["E1"], scope="prelude identities at classification level on schemas without alias rules (full 64-bit integer range, all floats, bignum tags); operator identities evaluated inside the visitors are outside the claim",
                assumptions=COMMON_E1),
    "C10": dict(engines=["E1"], scope="assignment kernels: Kuhn re-assignment = perfect matching and permutation invariant for every 2x2 (thorough: 3x3) compatibility matrix; ledger lookups by physical index; whole-validator order independence is outside the claim",
                assumptions=COMMON_E1),
    "C11": dict(engines=["E1"], scope="layered: every head of ≤ 9 bytes, decode_value dispatch and all scalar values on ≤ 9/10 symbolic bytes (callees stubbed by contract), definite strings ≤ 4 payload bytes incl. UTF-8 validity and truncation; indefinite strings and containers only in the thorough tier",
                assumptions=COMMON_E1),
    "C13": dict(engines=["E1"], scope="field coercion (coerce_field) only; RFC 4180 record splitting and the delegation to the JSON validator are outside the claim",
                assumptions=COMMON_E1),
    "C15": dict(engines=["E1"], scope="position arithmetic: error range / index / line / column for rejected documents on ASCII ≤ 4–6 bytes, span→position helpers incl. one multi-byte scalar; AST span structure is outside the claim",
                assumptions=COMMON_E1),
}

NOT_APPLICABLE = {
    "C01": "whole JSONValidator runs and single visitor callbacks exceed CBMC's reach here (measured: >9 GB / 10-25 min with up to 20 dependency stubs at unwind 8/3/2); the only pure anchor (prelude name chasing) times out on a 2-rule alias chain; its table part is checked under C09",
    "C04": "needs whole JSON and CBOR validator runs (or one visitor callback on each side); both exceed CBMC's reach (measured >9 GB / 7 min for one scalar callback with fmt/regex/abnf stubbed)",
    "C08": "relates two whole-validator runs over rule graphs and generic-argument state; unreachable for the same measured reasons as C01",
    "C12": "the duplicate check is inline in convert_cddl and the reference walker consumes pest Pairs; the pest-generated parser is not symbolically executable (measured: >5 GB on the concrete input a=1) and name equality across rules is not expressible in the grammar encoding",
    "C14": "quantifies over thread schedules (not modelled by Kani) and over error lists built along whole-validator paths",
    "C16": "comment attachment and rendering need the parser and the printer; the only separable kernel (merge) did not finish in 10 min at 1 comment x 2 anchors (SipHash/hashbrown)",
    "C17": "needs rustc and serde on generated text; the separable kernels (compute_scc_ids, to_snake_case, deduplicate_field_names) all exceeded the caps when probed",
    "C18": "process-level I/O: clap, files, stdin, global logger, exit status - not encodable",
    "C19": "build configurations are decided by the compiler; cross-configuration equality needs whole parser/validator runs",
    "C20": "arena de-duplication by deep structural equality over heap ASTs; measured >20 min for a two-rule document with three symbolic names",
}
