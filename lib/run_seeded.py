#!/usr/bin/env python3
"""Runs the registered quick checks against each seeded change: apply the patch to /repo, run the
checks that could see it, undo the patch straight afterwards. Writes seeded/<id>/detection.json."""
import json, os, subprocess, sys, time
VERIF = os.path.dirname(os.path.dirname(os.path.abspath(__file__)))
EXTRA = {"C02-m1": ["C11"], "C03-m2": ["C07"], "C11-m1": ["C02"], "C02b-m1": ["C11"], "C09b-m1": ["C01"], "C05c-m1": ["C11"]}
only = sys.argv[1:]
ids = sorted(os.listdir(os.path.join(VERIF, "seeded")))
for sid in ids:
    d = os.path.join(VERIF, "seeded", sid)
    if only and sid not in only:
        continue
    out = os.path.join(d, "detection.json")
    if os.path.exists(out) and not only:
        continue
    assert subprocess.run(["git", "-C", "/repo", "status", "--porcelain"], capture_output=True, text=True).stdout.strip() == "", "/repo not clean"
    props = [sid.split("-")[0].rstrip("bc")] + EXTRA.get(sid, [])
    res = {"id": sid, "repo_head": subprocess.run(["git", "-C", "/repo", "rev-parse", "--short", "HEAD"], capture_output=True, text=True).stdout.strip(), "runs": []}
    subprocess.run(["git", "-C", "/repo", "apply", os.path.join(d, "patch.diff")], check=True)
    try:
        for p in props:
            t0 = time.time()
            r = subprocess.run(["./check", p, "--tier", "quick"], cwd=VERIF, capture_output=True, text=True)
            lines = [l for l in r.stdout.splitlines() if l.startswith(("VIOLATION", "violation in", "INCONCLUSIVE", p + " quick"))]
            res["runs"].append({"check": p, "cmd": f"./check {p} --tier quick", "exit": r.returncode, "wall_s": round(time.time() - t0), "lines": [l[:400] for l in lines]})
            print(sid, p, "exit", r.returncode, flush=True)
    finally:
        subprocess.run(["git", "-C", "/repo", "checkout", "--", "."], check=True)
    res["detected"] = any(x["exit"] == 1 for x in res["runs"])
    json.dump(res, open(out, "w"), indent=1)
print("DONE")
