#!/usr/bin/env python3
"""Regenerates /verif/MANIFEST.json from props.py (keeps it valid at all times)."""
import json, os, sys
sys.path.insert(0, os.path.dirname(os.path.abspath(__file__)))
import props

TECH = {
    "E1": "bounded model checking of the compiled Rust (Kani 0.68 -> CBMC 6.11 -> CaDiCaL SAT) with differential reference models, unwinding assertions and cover-point vacuity witnesses; native replay of every counterexample",
    "E3": "a loop-free region of rustc's MIR for pest_bridge::unescape_text symbolically executed into 32-bit bit-vector terms and decided by z3 against the RFC surrogate-pair formula; witnesses replayed through unescape_text",
    "E2": "cddl.pest (pest_meta optimised rules) encoded as a bounded SAT problem and compared by z3 with a span-derivability encoding of the RFC 8610/9682 ABNF; witnesses replayed through cddl_from_str",
}

checks = []
for pid in sorted(props.CLAIMED):
    if pid.endswith("_pending"):
        continue
    c = props.CLAIMED[pid]
    checks.append({
        "property_id": pid,
        "quick_cmd": f"./check {pid} --tier quick",
        "thorough_cmd": f"./check {pid} --tier thorough",
        "evidence_file": f"/verif/evidence/{pid}.json",
        "replay_cmd_template": f"./check {pid} --replay {{path}}",
        "engine": "+".join(c["engines"]),
        "level_claimed": {
            "category": "model_checking",
            "text": "Solver verdict over all inputs inside stated bounds for the named units of the real code (regenerated from /repo on every run). " + c["scope"],
            "design_ref": "DESIGN.md section 5, " + pid,
        },
        "level_note": "Trusted: Kani/CBMC/CaDiCaL (E1), pest_meta front end + z3 (E2), the hand-transcribed RFC oracles. A pass covers only the units and bounds listed in the evidence file; stubs and assumptions are listed there.",
        "technique": "; ".join(TECH[e] for e in c["engines"]),
    })

m = {
    "version": 1,
    "setup_cmd": "./setup.sh",
    "hooks": {
        "guard": "anweiss_cddl_verif",
        "enable": "RUSTFLAGS=\"--cfg anweiss_cddl_verif\" (rustc cfg flag; the harness and replay crates set it themselves)",
        "baseline_off_cmd": "cd /repo && cargo nextest run --workspace --no-fail-fast --tool-config-file pb:/w/lib/nextest.toml --profile pb --test-threads 8 --offline || (cd /repo && cargo test --workspace --no-fail-fast --offline)",
        "source_commits": json.load(open(os.path.join(os.path.dirname(__file__), "..", "hook_commits.json"))),
        "add_only": True,
    },
    "engines": [
        {"name": "E1", "path": "/verif/kani", "serves_properties": sorted(p for p, c in props.CLAIMED.items() if "E1" in c["engines"] and not p.endswith("_pending")),
         "kind_free_text": "Kani proof harnesses over leaf kernels, out-of-tree crate with a path dependency on /repo"},
        {"name": "E3", "path": "/verif/e3", "serves_properties": sorted(p for p, c in props.CLAIMED.items() if "E3" in c["engines"]),
         "kind_free_text": "MIR slice (nightly -Zunpretty=mir) -> z3 bit-vectors for the code-point arithmetic of unescape_text"},
        {"name": "E2", "path": "/verif/e2", "serves_properties": sorted(p for p, c in props.CLAIMED.items() if "E2" in c["engines"] and not p.endswith("_pending")),
         "kind_free_text": "cddl.pest -> SAT (pegdump + Python/z3) versus RFC ABNF span derivability"},
    ],
    "checks": checks,
    "notes": "Technique family: solver-based checking of the real code: E1 Kani/CBMC harnesses over leaf kernels and single visitor callbacks, E2 cddl.pest as a SAT problem against the RFC ABNF, E3 a MIR slice of unescape_text in z3. Exit 2 of a check means inconclusive (timeout / out of memory / non-reproducing counterexample / machinery fault) and is never a pass. Known findings and fixed: entries: /verif/known_findings.json. Seeded changes and what catches them: /verif/seeded, DESIGN.md section 8. Last `vp check` (request 4, taken at /verif d0326ec = the harness sources and harness table of the final state, /repo 4a6d872): nothing needed attention (all twelve quick checks, 59 min); later commits change documentation, seeded-change records, the C05 scope sentence and re-generated evidence only.",
    "not_applicable": [{"property_id": p, "reason": r} for p, r in sorted(props.NOT_APPLICABLE.items())],
}
with open(os.path.join(os.path.dirname(__file__), "..", "MANIFEST.json"), "w") as f:
    json.dump(m, f, indent=1)
print("MANIFEST.json written:", len(checks), "checks,", len(m["not_applicable"]), "not applicable")
