#!/usr/bin/env python3
"""Prints the markdown table of seeded changes and which registered quick check catches which."""
import json, os, re
V = os.path.join(os.path.dirname(os.path.abspath(__file__)), "..", "seeded")
print("| id | change (one line) | needs | quick checks run → exit | caught by |")
print("|---|---|---|---|---|")
for sid in sorted(os.listdir(V)):
    d = os.path.join(V, sid)
    meta = json.load(open(os.path.join(d, "meta.json")))
    det = json.load(open(os.path.join(d, "detection.json"))) if os.path.exists(os.path.join(d, "detection.json")) else None
    notes = open(os.path.join(d, "notes.md"), errors="replace").read() if os.path.exists(os.path.join(d, "notes.md")) else ""
    summ = meta.get("one_line") or meta.get("summary", "")[:140]
    needs = meta.get("needs_to_manifest", "")[:140]
    runs = ", ".join(f"{r['check']}→{r['exit']}" for r in det["runs"]) if det else "—"
    caught = meta.get("detected_by") or ("—" if not det or not det.get("detected") else ", ".join(r["check"] for r in det["runs"] if r["exit"] == 1))
    print(f"| {sid} | {summ} | {needs} | {runs} | {caught} |")
