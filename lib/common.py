"""Shared helpers."""
import hashlib
import json
import os

VERIF = os.path.dirname(os.path.dirname(os.path.abspath(__file__)))


def save_replay(pid, kind, payload):
    d = os.path.join(VERIF, "evidence", "replays")
    os.makedirs(d, exist_ok=True)
    digest = hashlib.sha1(json.dumps(payload, sort_keys=True).encode()).hexdigest()[:12]
    path = os.path.join(d, f"{pid}-{kind}-{digest}.json")
    with open(path, "w") as f:
        json.dump(payload, f, indent=1)
    return path
