"""E3 driver — MIR slice of unescape_text → z3 (see e3/mirslice.py)."""
import json
import os
import sys
import time

VERIF = os.path.dirname(os.path.dirname(os.path.abspath(__file__)))
sys.path.insert(0, os.path.join(VERIF, "e3"))
import z3  # noqa: E402

import e1  # noqa: E402
import mirslice  # noqa: E402
from common import save_replay  # noqa: E402

HI = (0xD800, 0xDBFF)
LO = (0xDC00, 0xDFFF)


def in_range(x, r):
    return z3.And(z3.UGE(x, z3.BitVecVal(r[0], 32)), z3.ULE(x, z3.BitVecVal(r[1], 32)))


def valid(pc, claim):
    s = z3.Solver()
    s.add(pc)
    s.add(z3.Not(claim))
    return s.check() == z3.unsat


def native_unescape(text):
    code, out = e1.replay_api("unescape", {"text": text})
    if code != 0:
        raise RuntimeError("native unescape helper failed: " + out)
    return json.loads(out.strip().splitlines()[-1])


def run(pid, tier, seed):
    t0 = time.time()
    violations, known, broken, samples, per = [], [], [], [], []
    nq = 0
    mir, dump_s = mirslice.dump_mir()
    try:
        ex, ranges, starts, nblocks = mirslice.analyse(mir)
    except mirslice.MirError as e:
        return [], [], [f"E3: {e}"], {"engine": "E3", "discharged": 0, "nontrivial": 0, "solver_queries": 0, "samples": []}
    e1.build_replay("dev")
    pair_sinks = single_sinks = 0
    discharged = nontrivial = 0
    for k, sk in enumerate(ex.sinks):
        names = sorted(sk.inputs)
        s = z3.Solver()
        s.add(sk.pc)
        nq += 1
        if s.check() != z3.sat:
            continue  # infeasible path
        kind, oracle, a_name, b_name = None, None, None, None
        if len(names) == 2:
            for a, b in ((names[0], names[1]), (names[1], names[0])):
                nq += 1
                if valid(sk.pc, z3.And(in_range(sk.inputs[a], HI), in_range(sk.inputs[b], LO))):
                    A, B = sk.inputs[a], sk.inputs[b]
                    oracle = z3.BitVecVal(0x10000, 32) + ((A - z3.BitVecVal(0xD800, 32)) << 10) + (B - z3.BitVecVal(0xDC00, 32))
                    kind, a_name, b_name = "surrogate_pair", a, b
        elif len(names) == 1:
            kind, a_name = "single", names[0]
            oracle = sk.inputs[a_name]
        if kind is None:
            continue
        if kind == "surrogate_pair":
            pair_sinks += 1
        else:
            single_sinks += 1
        entry = {"sink": k, "kind": kind, "path_blocks": sk.path, "inputs": names, "path_condition_conjuncts": len(sk.pc),
                 "overflow_obligations": len(sk.obligations)}
        # value query
        q = z3.Solver()
        q.add(sk.pc)
        q.add(sk.arg != oracle)
        nq += 1
        r = q.check()
        entry["value_query"] = str(r)
        ok = r == z3.unsat
        if r == z3.sat:
            m = q.model()
            vals = {n: m.eval(sk.inputs[n], model_completion=True).as_long() for n in names}
            got = m.eval(sk.arg, model_completion=True).as_long()
            want = m.eval(oracle, model_completion=True).as_long()
            if kind == "surrogate_pair":
                text = "\\u%04X\\u%04X" % (vals[a_name], vals[b_name])
            else:
                text = "\\u{%X}" % vals[a_name] if vals[a_name] > 0xFFFF else "\\u%04X" % vals[a_name]
            nat = native_unescape(text)
            rec = {"property": pid, "engine": "E3", "kind": kind, "inputs": vals, "mir_argument_of_from_u32": got,
                   "rfc_scalar": want, "text": text, "native_code_points": nat.get("code_points"),
                   "what": f"unescape_text hands {got:#x} to char::from_u32 where the escape denotes {want:#x}"}
            reproduced = nat.get("code_points") != [want]
            if reproduced:
                path = save_replay(pid, "e3-unescape", rec)
                violations.append(("e3/unescape_text", path, rec))
            else:
                broken.append(f"E3: solver model {vals} for sink {k} does not reproduce natively ({nat}): slice or oracle fault")
        elif r != z3.unsat:
            broken.append(f"E3: value query for sink {k} answered {r}")
        # overflow obligations
        for (pcp, okc, desc) in sk.obligations:
            oq = z3.Solver()
            oq.add(pcp)
            oq.add(z3.Not(okc))
            nq += 1
            if oq.check() != z3.unsat:
                ok = False
                m = oq.model()
                rec = {"property": pid, "engine": "E3", "kind": "overflow", "assert": desc,
                       "inputs": {n: m.eval(sk.inputs[n], model_completion=True).as_long() for n in names},
                       "what": "checked arithmetic in unescape_text can overflow (panic in a build with overflow checks)"}
                broken.append(f"E3: overflow obligation not discharged on sink {k}: {desc} with {rec['inputs']} (needs triage)")
        discharged += 1
        if ok:
            nontrivial += 1
        # a witness of the path for the evidence
        wm = s.model()
        samples.append({"e3_sink": kind, "example_inputs": {n: hex(wm.eval(sk.inputs[n], model_completion=True).as_long()) for n in names}})
        per.append(entry)
    if pair_sinks < 1 or single_sinks < 2:
        broken.append(f"E3: expected the surrogate-pair path and two pass-through paths in unescape_text's MIR, found {pair_sinks} / {single_sinks} "
                      "(the function changed shape; the slice must be re-derived)")
    parts = {
        "engine": "E3 rustc nightly MIR dump + z3 " + z3.get_version_string(),
        "function": "cddl::pest_bridge::unescape_text", "mir_blocks": nblocks, "region_entry_blocks": starts,
        "promoted_ranges": {str(k): [hex(a), hex(b)] for k, (a, b) in ranges.items()},
        "sinks": per, "samples": samples[:4], "discharged": discharged, "nontrivial": nontrivial, "solver_queries": nq,
        "mir_dump_s": round(dump_s, 1), "wall_s": round(time.time() - t0, 1),
        "assumptions": [
            "E3: the values parsed by u32::from_str_radix are the symbolic inputs; which escapes are recognised and how digits are collected is outside the slice (decided by E2 on the grammar)",
            "E3: MIR from the nightly toolchain with -C overflow-checks=on -C debug-assertions=off; 32-bit bit-vector semantics of the MIR operators as implemented in e3/mirslice.py; statements the slice does not model make a local unknown, never constrained",
        ],
    }
    return violations, known, broken, parts


def replay(rec):
    nat = native_unescape(rec["text"])
    print(f"unescape_text({rec['text']!r}) -> {nat.get('code_points')}, RFC scalar {rec['rfc_scalar']:#x}")
    if nat.get("code_points") != [rec["rfc_scalar"]]:
        print(f"VIOLATION property={rec['property']} replay=(this file)")
        return 1
    print("behaviour differs from the recorded violation on the current tree")
    return 0
