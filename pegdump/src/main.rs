use pest_meta::ast::RuleType;
use pest_meta::optimizer::OptimizedExpr as E;
use serde_json::{json, Value};

fn ex(e: &E) -> Value {
    match e {
        E::Str(s) => json!({"k":"str","s":s}),
        E::Insens(s) => json!({"k":"insens","s":s}),
        E::Range(a, b) => json!({"k":"range","a":a,"b":b}),
        E::Ident(s) => json!({"k":"ident","s":s}),
        E::PeekSlice(a, b) => json!({"k":"peekslice","a":a,"b":b}),
        E::PosPred(e) => json!({"k":"pos","e":ex(e)}),
        E::NegPred(e) => json!({"k":"neg","e":ex(e)}),
        E::Seq(a, b) => json!({"k":"seq","a":ex(a),"b":ex(b)}),
        E::Choice(a, b) => json!({"k":"choice","a":ex(a),"b":ex(b)}),
        E::Opt(e) => json!({"k":"opt","e":ex(e)}),
        E::Rep(e) => json!({"k":"rep","e":ex(e)}),
        E::Skip(v) => json!({"k":"skip","v":v}),
        E::Push(e) => json!({"k":"push","e":ex(e)}),
        E::RestoreOnErr(e) => json!({"k":"restore","e":ex(e)}),
        #[allow(unreachable_patterns)]
        _ => json!({"k":"unsupported"}),
    }
}

fn main() {
    let path = std::env::args().nth(1).expect("grammar path");
    let g = std::fs::read_to_string(&path).unwrap();
    let (_defaults, rules) = pest_meta::parse_and_optimize(&g).expect("grammar parses");
    let out: Vec<Value> = rules
        .iter()
        .map(|r| {
            let ty = match r.ty {
                RuleType::Normal => "normal",
                RuleType::Silent => "silent",
                RuleType::Atomic => "atomic",
                RuleType::CompoundAtomic => "compound",
                RuleType::NonAtomic => "nonatomic",
            };
            json!({"name": r.name, "ty": ty, "expr": ex(&r.expr)})
        })
        .collect();
    println!("{}", serde_json::to_string(&out).unwrap());
}
