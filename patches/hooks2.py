#!/usr/bin/env python3
"""Applies the second hook commit (forwarders for the repeating-member kernels). Add-only."""
import re
for path, ty, err in (("/repo/src/validator/cbor.rs", "CBORValidator", "cbor"), ("/repo/src/validator/json.rs", "JSONValidator", "json")):
    s = open(path).read()
    if "validate_repeating_member_count(v:" in s:
        continue
    block = f'''
/// Verification hooks (second batch): forwarders to the repeating-member occurrence
/// kernels. Compiled only with `--cfg anweiss_cddl_verif`.
#[cfg(anweiss_cddl_verif)]
#[doc(hidden)]
#[allow(missing_docs)]
pub mod verif_hooks_occ {{
  use super::{ty};
  use crate::ast::ValueMemberKeyEntry;

  pub fn validate_repeating_member_count<'a>(
    v: &mut {ty}<'a>,
    entry: &ValueMemberKeyEntry<'a>,
    count: usize,
  ) {{
    v.validate_repeating_member_count(entry, count)
  }}
  pub fn repeating_member_upper_bound<'a>(entry: &ValueMemberKeyEntry<'a>) -> Option<usize> {{
    {ty}::repeating_member_upper_bound(entry)
  }}
  pub fn error_count(v: &{ty}<'_>) -> usize {{
    v.errors.len()
  }}
}}
'''
    open(path, "a").write(block)
print("hooks2 applied")
