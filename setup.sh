#!/bin/sh
# Offline setup after a fresh restore: pre-build the Kani dependency graph (base target
# dir), the native replay binary (dev + release) and the pegdump tool. Everything the
# checks need is rebuilt from /repo's working tree by the checks themselves; this only
# warms the caches so the first check does not pay for it.
set -e
cd "$(dirname "$0")"
export CARGO_NET_OFFLINE=true
export RUSTFLAGS="--cfg anweiss_cddl_verif"
mkdir -p .build/kani/base .build/logs evidence
( cd kani && cargo kani -Z stubbing -Z concrete-playback --concrete-playback=print --target-dir ../.build/kani/base --only-codegen --harness c11_l2_bytes_def1 >/dev/null 2>../.build/logs/setup-kani.log ) || { tail -20 .build/logs/setup-kani.log; exit 1; }
( mkdir -p .build/mir; cd replay && cargo build --offline --target-dir ../.build/replay >/dev/null 2>../.build/logs/setup-replay.log && cargo build --offline --release --target-dir ../.build/replay >/dev/null 2>>../.build/logs/setup-replay.log ) || { tail -20 .build/logs/setup-replay.log; exit 1; }
if [ -d pegdump ]; then
  ( cd pegdump && RUSTFLAGS= cargo build --offline --release --target-dir ../.build/pegdump >/dev/null 2>../.build/logs/setup-pegdump.log ) || { tail -20 .build/logs/setup-pegdump.log; exit 1; }
fi
# nightly dependency graph for the MIR dump of E3 (only the cddl crate itself is re-compiled per run)
( cd /repo && env -u RUSTFLAGS cargo +nightly rustc --offline --lib --target-dir /verif/.build/mir -- -Zunpretty=mir -C debug-assertions=off -C overflow-checks=on >/dev/null 2>/verif/.build/logs/setup-mir.log ) || { tail -20 .build/logs/setup-mir.log; exit 1; }
echo "setup ok"
